/*
 * vsim interposer: the libc seam owned by the simulator (DESIGN.md section 4, appendix A).
 *
 * LD_PRELOADed into the real, unmodified `typstyle` binary (engine A) and into the
 * engine-B worker / reference processes (clock + randomness only).
 *
 * Environment (all absent = pure pass-through):
 *   VSIM_ROOT     absolute canonical path of the simulated world; only paths below it and
 *                 fds 0/1/2 are "in-world" (logged, eligible for faults)
 *   VSIM_TRACE    file the ordered event trace is appended to
 *   VSIM_SEED     u64: directory permutations, simulated clock, getrandom stream
 *   VSIM_READDIR  perm (default) | sorted | reverse | native
 *   VSIM_PLAN     ';'-separated fault rules  kind:selector:when:arg
 *
 * Rule kinds
 *   openr openw opendir   when = n-th matching call (1-based), arg = errno name
 *   read write            when = n (n-th call on a matching fd) or +k (first call at byte
 *                         offset >= k; bytes before k are transferred for real), arg = errno;
 *                         sticky for that fd afterwards
 *   readdir               when = after n entries of a matching directory, arg = errno
 *   short_read short_write  arg = max bytes per call (every matching call)
 *   eintr_read eintr_write eintr_open   when = n-th matching call fails once with EINTR
 *                         (0 = every other call), the retry is real
 *   clockjump             when = n-th clock read, arg = nanoseconds added from then on
 *   crash                 when = global event index; _exit(137) before performing that call
 * Selectors: world-relative path, @0 @1 @2 (std fds), * (any in-world path), ** (anything).
 *
 * Trace line:  <seq> <sym> <target> <arg> -> <ret> [<errno-name>] [FAULT=<rule#>]
 */
#define _GNU_SOURCE
#include <dirent.h>
#include <dlfcn.h>
#include <errno.h>
#include <sys/resource.h>
#include <fcntl.h>
#include <limits.h>
#include <pthread.h>
#include <signal.h>
#include <stdarg.h>
#include <stdint.h>
#include <stdio.h>
#include <stdlib.h>
#include <string.h>
#include <sys/stat.h>
#include <sys/syscall.h>
#include <sys/types.h>
#include <sys/uio.h>
#include <time.h>
#include <unistd.h>

#define MAXFD 4096
#define MAXRULES 64
#define MAXDIRS 256
#define RELMAX 4096

/* ------------------------------------------------------------------ real symbols */
static int (*real_open64)(const char *, int, ...);
static int (*real_openat64)(int, const char *, int, ...);
static ssize_t (*real_read)(int, void *, size_t);
static ssize_t (*real_pread64)(int, void *, size_t, off_t);
static ssize_t (*real_readv)(int, const struct iovec *, int);
static ssize_t (*real_write)(int, const void *, size_t);
static ssize_t (*real_pwrite64)(int, const void *, size_t, off_t);
static ssize_t (*real_writev)(int, const struct iovec *, int);
static int (*real_close)(int);
static off_t (*real_lseek64)(int, off_t, int);
static DIR *(*real_opendir)(const char *);
static DIR *(*real_fdopendir)(int);
static struct dirent64 *(*real_readdir64)(DIR *);
static int (*real_closedir)(DIR *);
static int (*real_rename)(const char *, const char *);
static int (*real_renameat)(int, const char *, int, const char *);
static int (*real_unlink)(const char *);
static int (*real_unlinkat)(int, const char *, int);
static int (*real_truncate64)(const char *, off_t);
static int (*real_ftruncate64)(int, off_t);
static int (*real_mkdir)(const char *, mode_t);
static int (*real_symlink)(const char *, const char *);
static int (*real_link)(const char *, const char *);
static int (*real_clock_gettime)(clockid_t, struct timespec *);
static ssize_t (*real_getrandom)(void *, size_t, unsigned int);
static long (*real_syscall)(long, ...);
static char *(*real_getcwd)(char *, size_t);
static char *(*real_getenv)(const char *);
static __thread int t_clock_sim;

/* ------------------------------------------------------------------ state */
static pthread_mutex_t g_lock = PTHREAD_MUTEX_INITIALIZER;
static int g_inited = 0;
static int g_active = 0;      /* VSIM_SEED present: clock + randomness simulated */
static int g_world = 0;       /* VSIM_ROOT present */
static char g_root[PATH_MAX];
static size_t g_rootlen = 0;
static int g_trace_fd = -1;
static uint64_t g_seed = 0;
static uint64_t g_seq = 0;    /* global event index */
static int g_readdir_mode = 0; /* 0 perm, 1 sorted, 2 reverse, 3 native */

static uint64_t g_rand_state = 0;
static uint64_t g_clock_calls = 0;
static int64_t g_clock_jump = 0;

struct fdinfo {
  int used;
  int writable;
  long off;
  int sticky_errno;
  int sticky_rule;
  int last_eintr;
  long calls_r, calls_w;
  char rel[RELMAX];
};
static struct fdinfo g_fds[MAXFD];

enum kind {
  K_OPENR, K_OPENW, K_OPENDIR, K_READ, K_WRITE, K_READDIR, K_SHORT_READ, K_SHORT_WRITE,
  K_EINTR_READ, K_EINTR_WRITE, K_EINTR_OPEN, K_CLOCKJUMP, K_CRASH, K_RENAME, K_STATSIZE, K_TTY, K_DEVNO, K_FLOCK, K_SIGNAL, K_GETCWD, K_THREAD, K_EAGAIN_READ, K_STAT, K_TREAD, K_EAGAIN_WRITE, K_NKINDS
};
static const char *kind_names[] = {"openr", "openw", "opendir", "read", "write", "readdir",
                                   "short_read", "short_write", "eintr_read", "eintr_write",
                                   "eintr_open", "clockjump", "crash", "rename", "statsize", "tty", "devno", "flock", "signal", "getcwd", "thread", "eagain_read", "stat", "tread", "eagain_write"};
struct rule {
  int kind;
  char sel[RELMAX];
  int by_offset;   /* when was given as +k */
  long when;
  long arg;        /* errno value or number */
  long hits;       /* matching calls seen */
  int fired;
};
static struct rule g_rules[MAXRULES];
static int g_nrules = 0;

struct dirbuf {
  DIR *dirp;
  struct dirent64 *ents;
  int n, pos;
  int fail_after, fail_errno, fail_rule;
  char rel[RELMAX];
};
static struct dirbuf g_dirs[MAXDIRS];
static long g_opendir_count = 0;

/* ------------------------------------------------------------------ helpers */
static uint64_t splitmix(uint64_t *s) {
  uint64_t z = (*s += 0x9E3779B97F4A7C15ULL);
  z = (z ^ (z >> 30)) * 0xBF58476D1CE4E5B9ULL;
  z = (z ^ (z >> 27)) * 0x94D049BB133111EBULL;
  return z ^ (z >> 31);
}
static uint64_t fnv(const char *s) {
  uint64_t h = 0xcbf29ce484222325ULL;
  for (; *s; s++) { h ^= (unsigned char)*s; h *= 0x100000001b3ULL; }
  return h;
}

struct errname { const char *n; int v; };
static const struct errname errnames[] = {
  {"EACCES", EACCES}, {"EIO", EIO}, {"EMFILE", EMFILE}, {"ENOENT", ENOENT}, {"EROFS", EROFS},
  {"ENOSPC", ENOSPC}, {"EPIPE", EPIPE}, {"EINTR", EINTR}, {"EISDIR", EISDIR}, {"ENOTDIR", ENOTDIR},
  {"EPERM", EPERM}, {"EDQUOT", EDQUOT}, {"EFBIG", EFBIG}, {"ENFILE", ENFILE}, {"ENOMEM", ENOMEM},
  {"EBADF", EBADF}, {"ELOOP", ELOOP}, {"ENAMETOOLONG", ENAMETOOLONG}, {"EAGAIN", EAGAIN},
  {"ETXTBSY", ETXTBSY}, {"EBUSY", EBUSY}, {"EXDEV", EXDEV}, {"EWOULDBLOCK", EWOULDBLOCK}, {"ENOLCK", ENOLCK}, {"ESTALE", ESTALE}, {"ETIMEDOUT", ETIMEDOUT}, {0, 0}};
static int errno_from_name(const char *s) {
  for (int i = 0; errnames[i].n; i++) if (!strcmp(errnames[i].n, s)) return errnames[i].v;
  return atoi(s);
}
static const char *errno_name(int e) {
  for (int i = 0; errnames[i].n; i++) if (errnames[i].v == e) return errnames[i].n;
  static __thread char buf[16];
  snprintf(buf, sizeof buf, "E%d", e);
  return buf;
}

static void resolve_syms(void) {
#define R(name) real_##name = dlsym(RTLD_NEXT, #name)
  R(open64); R(openat64); R(read); R(pread64); R(readv); R(write); R(pwrite64); R(writev);
  R(close); R(lseek64); R(opendir); R(fdopendir); R(readdir64); R(closedir); R(rename);
  R(renameat); R(unlink); R(unlinkat); R(truncate64); R(ftruncate64); R(mkdir); R(symlink);
  R(link); R(clock_gettime); R(getrandom); R(syscall); R(getcwd); R(getenv);
#undef R
}

static void parse_plan(const char *plan) {
  char *copy = strdup(plan), *save1 = NULL;
  for (char *tok = strtok_r(copy, ";", &save1); tok && g_nrules < MAXRULES;
       tok = strtok_r(NULL, ";", &save1)) {
    /* kind:selector:when:arg ; selector may itself contain ':'?  no - harness never generates it */
    char *f[4] = {0, 0, 0, 0};
    int nf = 0;
    char *p = tok;
    f[nf++] = p;
    /* split first field */
    char *c = strchr(p, ':');
    if (!c) continue;
    *c = 0;
    f[nf++] = c + 1;
    /* last two fields are split from the right so a selector may contain ':' */
    char *last = strrchr(f[1], ':');
    if (!last) continue;
    *last = 0;
    char *arg = last + 1;
    char *mid = strrchr(f[1], ':');
    if (!mid) continue;
    *mid = 0;
    char *when = mid + 1;
    struct rule *r = &g_rules[g_nrules];
    memset(r, 0, sizeof *r);
    r->kind = -1;
    for (int k = 0; k < K_NKINDS; k++) if (!strcmp(kind_names[k], f[0])) r->kind = k;
    if (r->kind < 0) continue;
    snprintf(r->sel, sizeof r->sel, "%s", f[1]);
    if (when[0] == '+') { r->by_offset = 1; r->when = atol(when + 1); }
    else r->when = atol(when);
    switch (r->kind) {
      case K_SHORT_READ: case K_SHORT_WRITE: case K_CLOCKJUMP: case K_CRASH: case K_STATSIZE: case K_TTY: case K_DEVNO: case K_SIGNAL: case K_EAGAIN_READ: case K_EAGAIN_WRITE:
        r->arg = atol(arg); break;
      case K_EINTR_READ: case K_EINTR_WRITE: case K_EINTR_OPEN:
        r->arg = EINTR; break;
      default: r->arg = errno_from_name(arg);
    }
    g_nrules++;
  }
  free(copy);
}

static void vsim_init(void) {
  if (g_inited) return;
  g_inited = 1;
  resolve_syms();
  const char *seed = getenv("VSIM_SEED");
  if (seed) {
    g_active = 1;
    g_seed = strtoull(seed, NULL, 10);
    g_rand_state = g_seed ^ 0xA5A5A5A55A5A5A5AULL;
  }
  const char *root = getenv("VSIM_ROOT");
  if (root && root[0] == '/') {
    snprintf(g_root, sizeof g_root, "%s", root);
    g_rootlen = strlen(g_root);
    while (g_rootlen > 1 && g_root[g_rootlen - 1] == '/') g_root[--g_rootlen] = 0;
    g_world = 1;
  }
  /* `VSIM_NOFILE=n`: the process may have n descriptors open at a time (a small `ulimit -n`):
   * a tool that closes what it opens never notices; one that leaks a descriptor per input does
   * after a few dozen inputs */
  const char *nf = getenv("VSIM_NOFILE");
  if (nf && atoi(nf) > 8) {
    struct rlimit rl;
    rl.rlim_cur = rl.rlim_max = (rlim_t)atoi(nf);
    setrlimit(RLIMIT_NOFILE, &rl);
  }
  const char *rd = getenv("VSIM_READDIR");
  if (rd) {
    if (!strcmp(rd, "sorted")) g_readdir_mode = 1;
    else if (!strcmp(rd, "reverse")) g_readdir_mode = 2;
    else if (!strcmp(rd, "native")) g_readdir_mode = 3;
  }
  const char *plan = getenv("VSIM_PLAN");
  if (plan && g_world) parse_plan(plan);
  const char *trace = getenv("VSIM_TRACE");
  if (trace && g_world) {
    int fd = real_open64(trace, O_WRONLY | O_APPEND | O_CREAT | O_CLOEXEC, 0644);
    if (fd >= 0) {
      int hi = fcntl(fd, F_DUPFD_CLOEXEC, 3000);
      if (hi >= 0) { real_close(fd); fd = hi; }
      g_trace_fd = fd;
    }
  }
  if (g_world) {
    /* fds 0/1/2 are in-world */
    for (int i = 0; i < 3; i++) {
      g_fds[i].used = 1;
      g_fds[i].writable = i != 0;
      snprintf(g_fds[i].rel, RELMAX, "@%d", i);
    }
  }
}
__attribute__((constructor)) static void vsim_ctor(void) { vsim_init(); }

/* exported: engine B reseeds the randomness / clock stream at the start of every run */
void vsim_reseed(uint64_t seed) {
  vsim_init();
  pthread_mutex_lock(&g_lock);
  g_seed = seed;
  g_rand_state = seed ^ 0xA5A5A5A55A5A5A5AULL;
  g_clock_calls = 0;
  g_clock_jump = 0;
  g_active = 1;
  pthread_mutex_unlock(&g_lock);
}
int vsim_present(void) { return 1; }

/* lexical normalisation of an absolute path into out */
static void normalise(const char *abs, char *out, size_t outsz) {
  char tmp[PATH_MAX * 2];
  snprintf(tmp, sizeof tmp, "%s", abs);
  char *parts[512];
  int np = 0;
  char *save = NULL;
  for (char *t = strtok_r(tmp, "/", &save); t; t = strtok_r(NULL, "/", &save)) {
    if (!strcmp(t, ".")) continue;
    if (!strcmp(t, "..")) { if (np > 0) np--; continue; }
    if (np < 512) parts[np++] = t;
  }
  size_t o = 0;
  if (np == 0) { snprintf(out, outsz, "/"); return; }
  for (int i = 0; i < np; i++) {
    int w = snprintf(out + o, outsz - o, "/%s", parts[i]);
    if (w < 0 || (size_t)w >= outsz - o) break;
    o += (size_t)w;
  }
}

/* returns 1 and fills rel if the path is in-world */
static int world_rel(int dirfd, const char *path, char *rel) {
  if (!g_world || !path) return 0;
  char abs[PATH_MAX * 2], norm[PATH_MAX * 2];
  if (path[0] == '/') {
    snprintf(abs, sizeof abs, "%s", path);
  } else if (dirfd == AT_FDCWD) {
    char cwd[PATH_MAX];
    if (!real_getcwd(cwd, sizeof cwd)) return 0;
    snprintf(abs, sizeof abs, "%s/%s", cwd, path);
  } else if (dirfd >= 0 && dirfd < MAXFD && g_fds[dirfd].used && g_fds[dirfd].rel[0] != '@') {
    if (!strcmp(g_fds[dirfd].rel, "."))
      snprintf(abs, sizeof abs, "%s/%s", g_root, path);
    else
      snprintf(abs, sizeof abs, "%s/%s/%s", g_root, g_fds[dirfd].rel, path);
  } else {
    return 0;
  }
  normalise(abs, norm, sizeof norm);
  if (strncmp(norm, g_root, g_rootlen) != 0) return 0;
  if (norm[g_rootlen] == 0) { snprintf(rel, RELMAX, "."); return 1; }
  if (norm[g_rootlen] != '/') return 0;
  snprintf(rel, RELMAX, "%s", norm + g_rootlen + 1);
  return 1;
}

#define LIVELOCK_N 3000
static char g_last_fail[RELMAX];
static int g_last_fail_rule = -1;
static long g_same_fail = 0;

static int sel_match(const struct rule *r, const char *target) {
  if (!strcmp(r->sel, "**")) return 1;
  if (!strcmp(r->sel, "*")) return target[0] != '@';
  return !strcmp(r->sel, target);
}

static void trace_line(const char *sym, const char *target, long arg, long ret, int err, int rule) {
  if (g_trace_fd < 0) return;
  char buf[RELMAX + 256];
  int n = snprintf(buf, sizeof buf, "%llu %s %s %ld -> %ld", (unsigned long long)g_seq, sym,
                   target, arg, ret);
  if (ret < 0 && err) n += snprintf(buf + n, sizeof buf - n, " %s", errno_name(err));
  if (rule >= 0) n += snprintf(buf + n, sizeof buf - n, " FAULT=%d:%s", rule, kind_names[g_rules[rule].kind]);
  buf[n++] = '\n';
  ssize_t w = real_write(g_trace_fd, buf, (size_t)n);
  (void)w;
  /* Bounded progress: the same hard failure answered to the same target over and over means the
   * tool retries a persistent error without bound (it would never finish). After LIVELOCK_N
   * consecutive identical failures the simulator ends the run in a recognisable way; the
   * harness reports it as a violation (deterministic: counted in simulated steps, not seconds). */
  if (rule >= 0 && ret < 0 && err && err != EINTR && err != EAGAIN && target[0] != '@') {
    /* (standard streams excluded: a tool may ignore a broken stdout and go on printing;
     * successes in between do not reset the count: a retry loop may re-open the file each time) */
    if (!strcmp(g_last_fail, target) && g_last_fail_rule == rule) g_same_fail++;
    else { snprintf(g_last_fail, sizeof g_last_fail, "%s", target); g_last_fail_rule = rule; g_same_fail = 1; }
    if (g_same_fail >= LIVELOCK_N) {
      n = snprintf(buf, sizeof buf, "%llu livelock %s %ld -> -1 %s FAULT=%d:%s\n", (unsigned long long)g_seq, target,
                   g_same_fail, errno_name(err), rule, kind_names[g_rules[rule].kind]);
      w = real_write(g_trace_fd, buf, (size_t)n);
      (void)w;
      _exit(98);
    }
  }
}

/* called at the start of every in-world event, with the lock held: crash rule + seq */
static void event_begin(const char *sym, const char *target) {
  g_seq++;
  for (int i = 0; i < g_nrules; i++) {
    struct rule *r = &g_rules[i];
    if (r->kind == K_CRASH && !r->fired && (long)g_seq == r->when) {
      r->fired = 1;
      trace_line("crash", target, 0, 0, 0, i);
      (void)sym;
      _exit(137);
    }
    /* `signal:**:n:<signo>`: a catchable signal (SIGINT 2, SIGTERM 15, SIGHUP 1) is delivered to
     * the process before its n-th call - Ctrl-C or a supervisor in the middle of a batch. With
     * the default disposition the process dies there; if it handles the signal it goes on. */
    if (r->kind == K_SIGNAL && !r->fired && (long)g_seq == r->when) {
      r->fired = 1;
      trace_line("signal", target, r->arg, 0, 0, i);
      pthread_mutex_unlock(&g_lock);
      raise((int)r->arg);
      pthread_mutex_lock(&g_lock);
    }
  }
}

/* n-th-call style rule lookup; returns rule index or -1 */
static int nth_rule(int kind, const char *target) {
  int hit = -1;
  for (int i = 0; i < g_nrules; i++) {
    struct rule *r = &g_rules[i];
    if (r->kind != kind || !sel_match(r, target)) continue;
    r->hits++;
    if (hit >= 0) continue;
    if (kind == K_EINTR_READ || kind == K_EINTR_WRITE || kind == K_EINTR_OPEN) {
      if ((r->when == 0 && (r->hits % 2) == 1) || (r->when > 0 && r->hits == r->when)) {
        r->fired = 1; hit = i;
      }
    } else if (r->hits >= r->when) {
      /* hard open faults are sticky: from the n-th matching call on every one fails - a path the
       * simulator declared unreadable / unwritable stays so for the whole run (a tool that
       * tries again must not be judged for having succeeded), and `openw:*:1` is a read-only
       * world */
      r->fired = 1; hit = i;
    }
  }
  return hit;
}

/* ------------------------------------------------------------------ open family */
static int g_last_open_eintr = 0;
static int do_open(int dirfd, const char *path, int flags, mode_t mode, const char *sym) {
  vsim_init();
  char rel[RELMAX];
  if (!g_world || !world_rel(dirfd, path, rel))
    return dirfd == AT_FDCWD ? real_open64(path, flags, mode) : real_openat64(dirfd, path, flags, mode);
  pthread_mutex_lock(&g_lock);
  event_begin(sym, rel);
  int writable = (flags & O_ACCMODE) != O_RDONLY;
  int isdir = (flags & O_DIRECTORY) != 0;
  int ri = nth_rule(K_EINTR_OPEN, rel);
  if (ri >= 0 && g_last_open_eintr) ri = -1; /* (same rule for open: never twice in a row) */
  g_last_open_eintr = ri >= 0;
  if (ri < 0 && !isdir) ri = nth_rule(writable ? K_OPENW : K_OPENR, rel);
  if (ri < 0 && isdir) ri = nth_rule(K_OPENDIR, rel);
  if (ri >= 0) {
    int e = (int)g_rules[ri].arg;
    trace_line(writable ? "openw" : (isdir ? "opend" : "openr"), rel, flags, -1, e, ri);
    pthread_mutex_unlock(&g_lock);
    errno = e;
    return -1;
  }
  int fd = dirfd == AT_FDCWD ? real_open64(path, flags, mode) : real_openat64(dirfd, path, flags, mode);
  int e = errno;
  if (fd >= 0 && fd < MAXFD) {
    struct fdinfo *f = &g_fds[fd];
    memset(f, 0, sizeof *f);
    f->used = 1;
    f->writable = writable;
    f->sticky_rule = -1;
    snprintf(f->rel, RELMAX, "%s", rel);
  }
  trace_line(writable ? "openw" : (isdir ? "opend" : "openr"), rel, flags, fd, e, -1);
  pthread_mutex_unlock(&g_lock);
  errno = e;
  return fd;
}

int open64(const char *path, int flags, ...) {
  mode_t mode = 0;
  if (flags & (O_CREAT | O_TMPFILE)) { va_list ap; va_start(ap, flags); mode = va_arg(ap, mode_t); va_end(ap); }
  return do_open(AT_FDCWD, path, flags, mode, "open");
}
int open(const char *path, int flags, ...) {
  mode_t mode = 0;
  if (flags & (O_CREAT | O_TMPFILE)) { va_list ap; va_start(ap, flags); mode = va_arg(ap, mode_t); va_end(ap); }
  return do_open(AT_FDCWD, path, flags, mode, "open");
}
int openat64(int dirfd, const char *path, int flags, ...) {
  mode_t mode = 0;
  if (flags & (O_CREAT | O_TMPFILE)) { va_list ap; va_start(ap, flags); mode = va_arg(ap, mode_t); va_end(ap); }
  return do_open(dirfd, path, flags, mode, "openat");
}
int openat(int dirfd, const char *path, int flags, ...) {
  mode_t mode = 0;
  if (flags & (O_CREAT | O_TMPFILE)) { va_list ap; va_start(ap, flags); mode = va_arg(ap, mode_t); va_end(ap); }
  return do_open(dirfd, path, flags, mode, "openat");
}
int creat64(const char *path, mode_t mode) { return do_open(AT_FDCWD, path, O_CREAT | O_WRONLY | O_TRUNC, mode, "creat"); }
int creat(const char *path, mode_t mode) { return do_open(AT_FDCWD, path, O_CREAT | O_WRONLY | O_TRUNC, mode, "creat"); }

int close(int fd) {
  vsim_init();
  if (g_world && fd >= 0 && fd < MAXFD && g_fds[fd].used) {
    pthread_mutex_lock(&g_lock);
    event_begin("close", g_fds[fd].rel);
    int r = real_close(fd);
    int e = errno;
    trace_line("close", g_fds[fd].rel, g_fds[fd].off, r, e, -1);
    if (fd > 2) g_fds[fd].used = 0;
    pthread_mutex_unlock(&g_lock);
    errno = e;
    return r;
  }
  return real_close(fd);
}

/* ------------------------------------------------------------------ read / write */
/* Decide the fate of a transfer of `len` bytes on in-world fd. Returns:
 *  >0 allowed length (maybe shortened), 0 with *err set => fail with *err.  *rule = rule index or -1 */
static size_t transfer_gate(int fd, size_t len, int is_write, int *err, int *rule) {
  struct fdinfo *f = &g_fds[fd];
  *err = 0;
  *rule = -1;
  if (is_write) f->calls_w++; else f->calls_r++;
  if (f->sticky_errno && ((f->sticky_rule >= 0) && (g_rules[f->sticky_rule].kind == (is_write ? K_WRITE : K_READ)))) {
    *err = f->sticky_errno; *rule = f->sticky_rule; return 0;
  }
  /* `eagain_read:<sel>:n:k`: from the n-th read of a matching descriptor on, k reads in a row
   * answer EAGAIN (a non-blocking descriptor whose writer stalls); every one of them also lets
   * 100 ms of simulated time pass. Afterwards the data flows again. */
  if (!is_write) {
    for (int i = 0; i < g_nrules; i++) {
      struct rule *r = &g_rules[i];
      if (r->kind != K_EAGAIN_READ || !sel_match(r, f->rel)) continue;
      r->hits++;
      if (r->hits >= r->when && r->hits < r->when + r->arg) {
        r->fired = 1;
        g_clock_jump += 100000000LL;
        *err = EAGAIN; *rule = i; return 0;
      }
    }
  }
  /* `eagain_write:<sel>:n:k`: from the n-th write of a matching descriptor on, k writes in a row
   * answer EAGAIN (a non-blocking pipe whose reader is slow - what a Node.js parent hands to its
   * children); afterwards the descriptor takes data again. Together with a `short_write` rule the
   * write before the stall is a partial one. */
  if (is_write) {
    for (int i = 0; i < g_nrules; i++) {
      struct rule *r = &g_rules[i];
      if (r->kind != K_EAGAIN_WRITE || !sel_match(r, f->rel)) continue;
      r->hits++;
      if (r->hits >= r->when && r->hits < r->when + r->arg) {
        r->fired = 1;
        g_clock_jump += 100000000LL;
        *err = EAGAIN; *rule = i; return 0;
      }
    }
  }
  int ri = nth_rule(is_write ? K_EINTR_WRITE : K_EINTR_READ, f->rel);
  /* never two injected EINTRs in a row on one descriptor: two "every other call" rules that
   * match the same descriptor can get out of phase and would then interrupt every single call -
   * a storm no kernel produces, under which any correct retry loop spins for ever */
  if (ri >= 0 && !f->last_eintr) { f->last_eintr = 1; *err = EINTR; *rule = ri; return 0; }
  f->last_eintr = 0;
  /* `tread:<path>:+k:<errno>`: a *transient* read error - once, at the first read at or after
   * byte k of a matching file (the bytes before k are delivered first), a read fails with
   * ETIMEDOUT / EAGAIN / EIO; every later read works (a flaky network mount). A tool may report
   * the file as unreadable or try again; what it must not do is go on with a mixture. */
  if (!is_write) {
    for (int i = 0; i < g_nrules; i++) {
      struct rule *r = &g_rules[i];
      if (r->kind != K_TREAD || r->fired || !sel_match(r, f->rel)) continue;
      if (f->off >= r->when) { r->fired = 1; *err = (int)r->arg; *rule = i; return 0; }
      if (f->off + (long)len > r->when) { len = (size_t)(r->when - f->off); *rule = i; }
    }
  }
  /* hard errors */
  for (int i = 0; i < g_nrules; i++) {
    struct rule *r = &g_rules[i];
    if (r->kind != (is_write ? K_WRITE : K_READ) || !sel_match(r, f->rel)) continue;
    if (r->by_offset) {
      if (f->off >= r->when) {
        r->fired = 1; f->sticky_errno = (int)r->arg; f->sticky_rule = i;
        *err = (int)r->arg; *rule = i; return 0;
      }
      if (f->off + (long)len > r->when) { len = (size_t)(r->when - f->off); *rule = i; }
    } else {
      r->hits++;
      if (r->hits >= r->when) {
        r->fired = 1; f->sticky_errno = (int)r->arg; f->sticky_rule = i;
        *err = (int)r->arg; *rule = i; return 0;
      }
    }
  }
  /* short transfers */
  for (int i = 0; i < g_nrules; i++) {
    struct rule *r = &g_rules[i];
    if (r->kind != (is_write ? K_SHORT_WRITE : K_SHORT_READ) || !sel_match(r, f->rel)) continue;
    if (r->arg >= 1 && len > (size_t)r->arg) { len = (size_t)r->arg; r->fired = 1; if (*rule < 0) *rule = i; }
  }
  return len;
}

ssize_t read(int fd, void *buf, size_t len) {
  vsim_init();
  if (!(g_world && fd >= 0 && fd < MAXFD && g_fds[fd].used)) return real_read(fd, buf, len);
  pthread_mutex_lock(&g_lock);
  event_begin("read", g_fds[fd].rel);
  int err, rule;
  size_t n = len ? transfer_gate(fd, len, 0, &err, &rule) : 0;
  ssize_t r;
  int e;
  if (len && n == 0) { r = -1; e = err; }
  else { r = real_read(fd, buf, n); e = errno; if (r > 0) g_fds[fd].off += r; }
  trace_line("read", g_fds[fd].rel, (long)len, r, e, rule);
  pthread_mutex_unlock(&g_lock);
  errno = e;
  return r;
}

ssize_t pread64(int fd, void *buf, size_t len, off_t off) {
  vsim_init();
  if (!(g_world && fd >= 0 && fd < MAXFD && g_fds[fd].used)) return real_pread64(fd, buf, len, off);
  pthread_mutex_lock(&g_lock);
  event_begin("pread", g_fds[fd].rel);
  long save = g_fds[fd].off;
  g_fds[fd].off = off;
  int err, rule;
  size_t n = len ? transfer_gate(fd, len, 0, &err, &rule) : 0;
  ssize_t r; int e;
  if (len && n == 0) { r = -1; e = err; }
  else { r = real_pread64(fd, buf, n, off); e = errno; }
  g_fds[fd].off = save;
  trace_line("pread", g_fds[fd].rel, (long)len, r, e, rule);
  pthread_mutex_unlock(&g_lock);
  errno = e;
  return r;
}
ssize_t pread(int fd, void *buf, size_t len, off_t off) { return pread64(fd, buf, len, off); }

ssize_t readv(int fd, const struct iovec *iov, int cnt) {
  vsim_init();
  if (!(g_world && fd >= 0 && fd < MAXFD && g_fds[fd].used) || cnt <= 0) return real_readv(fd, iov, cnt);
  /* serve as a single read into the first non-empty buffer (a legal short readv) */
  for (int i = 0; i < cnt; i++) if (iov[i].iov_len) return read(fd, iov[i].iov_base, iov[i].iov_len);
  return 0;
}

ssize_t write(int fd, const void *buf, size_t len) {
  vsim_init();
  if (!(g_world && fd >= 0 && fd < MAXFD && g_fds[fd].used)) return real_write(fd, buf, len);
  pthread_mutex_lock(&g_lock);
  event_begin("write", g_fds[fd].rel);
  int err, rule;
  size_t n = len ? transfer_gate(fd, len, 1, &err, &rule) : 0;
  ssize_t r; int e;
  if (len && n == 0) { r = -1; e = err; }
  else { r = real_write(fd, buf, n); e = errno; if (r > 0) g_fds[fd].off += r; }
  trace_line("write", g_fds[fd].rel, (long)len, r, e, rule);
  pthread_mutex_unlock(&g_lock);
  errno = e;
  return r;
}

ssize_t pwrite64(int fd, const void *buf, size_t len, off_t off) {
  vsim_init();
  if (!(g_world && fd >= 0 && fd < MAXFD && g_fds[fd].used)) return real_pwrite64(fd, buf, len, off);
  pthread_mutex_lock(&g_lock);
  event_begin("pwrite", g_fds[fd].rel);
  long save = g_fds[fd].off;
  g_fds[fd].off = off;
  int err, rule;
  size_t n = len ? transfer_gate(fd, len, 1, &err, &rule) : 0;
  ssize_t r; int e;
  if (len && n == 0) { r = -1; e = err; }
  else { r = real_pwrite64(fd, buf, n, off); e = errno; }
  g_fds[fd].off = save;
  trace_line("pwrite", g_fds[fd].rel, (long)len, r, e, rule);
  pthread_mutex_unlock(&g_lock);
  errno = e;
  return r;
}
ssize_t pwrite(int fd, const void *buf, size_t len, off_t off) { return pwrite64(fd, buf, len, off); }

ssize_t writev(int fd, const struct iovec *iov, int cnt) {
  vsim_init();
  if (!(g_world && fd >= 0 && fd < MAXFD && g_fds[fd].used) || cnt <= 0) return real_writev(fd, iov, cnt);
  /* serve as a single write of the first non-empty buffer (a legal short writev) */
  for (int i = 0; i < cnt; i++) if (iov[i].iov_len) return write(fd, iov[i].iov_base, iov[i].iov_len);
  return 0;
}

off_t lseek64(int fd, off_t off, int whence) {
  vsim_init();
  off_t r = real_lseek64(fd, off, whence);
  if (g_world && fd >= 0 && fd < MAXFD && g_fds[fd].used && r >= 0) g_fds[fd].off = r;
  return r;
}
off_t lseek(int fd, off_t off, int whence) { return lseek64(fd, off, whence); }

/* ------------------------------------------------------------------ directories */
static int dirent_cmp(const void *a, const void *b) {
  return strcmp(((const struct dirent64 *)a)->d_name, ((const struct dirent64 *)b)->d_name);
}

static DIR *register_dir(DIR *d, const char *rel) {
  if (!d) return d;
  int slot = -1;
  for (int i = 0; i < MAXDIRS; i++) if (!g_dirs[i].dirp) { slot = i; break; }
  if (slot < 0) return d;
  struct dirbuf *b = &g_dirs[slot];
  memset(b, 0, sizeof *b);
  b->fail_after = -1;
  b->fail_rule = -1;
  snprintf(b->rel, RELMAX, "%s", rel);
  int cap = 16;
  b->ents = malloc(sizeof(struct dirent64) * cap);
  struct dirent64 *e;
  while ((e = real_readdir64(d)) != NULL) {
    if (b->n == cap) { cap *= 2; b->ents = realloc(b->ents, sizeof(struct dirent64) * cap); }
    memcpy(&b->ents[b->n], e, sizeof(struct dirent64));
    b->n++;
  }
  g_opendir_count++;
  if (g_readdir_mode != 3) {
    qsort(b->ents, b->n, sizeof(struct dirent64), dirent_cmp);
    if (g_readdir_mode == 2) {
      for (int i = 0; i < b->n / 2; i++) {
        struct dirent64 t = b->ents[i]; b->ents[i] = b->ents[b->n - 1 - i]; b->ents[b->n - 1 - i] = t;
      }
    } else if (g_readdir_mode == 0) {
      uint64_t s = g_seed ^ fnv(rel) ^ ((uint64_t)g_opendir_count * 0x9E3779B97F4A7C15ULL);
      for (int i = b->n - 1; i > 0; i--) {
        int j = (int)(splitmix(&s) % (uint64_t)(i + 1));
        struct dirent64 t = b->ents[i]; b->ents[i] = b->ents[j]; b->ents[j] = t;
      }
    }
  }
  /* readdir fault: after n entries (counting only real names, not . and ..) */
  for (int i = 0; i < g_nrules; i++) {
    struct rule *r = &g_rules[i];
    if (r->kind == K_READDIR && sel_match(r, rel) && b->fail_after < 0) {
      b->fail_after = (int)r->when; b->fail_errno = (int)r->arg; b->fail_rule = i;
    }
  }
  b->dirp = d;
  return d;
}

DIR *opendir(const char *path) {
  vsim_init();
  char rel[RELMAX];
  if (!g_world || !world_rel(AT_FDCWD, path, rel)) return real_opendir(path);
  pthread_mutex_lock(&g_lock);
  event_begin("opendir", rel);
  int ri = nth_rule(K_OPENDIR, rel);
  if (ri >= 0) {
    int e = (int)g_rules[ri].arg;
    trace_line("opendir", rel, 0, -1, e, ri);
    pthread_mutex_unlock(&g_lock);
    errno = e;
    return NULL;
  }
  DIR *d = real_opendir(path);
  int e = errno;
  if (d) register_dir(d, rel);
  trace_line("opendir", rel, 0, d ? 0 : -1, e, -1);
  pthread_mutex_unlock(&g_lock);
  errno = e;
  return d;
}

DIR *fdopendir(int fd) {
  vsim_init();
  if (!(g_world && fd >= 0 && fd < MAXFD && g_fds[fd].used && g_fds[fd].rel[0] != '@')) return real_fdopendir(fd);
  pthread_mutex_lock(&g_lock);
  event_begin("fdopendir", g_fds[fd].rel);
  DIR *d = real_fdopendir(fd);
  int e = errno;
  if (d) register_dir(d, g_fds[fd].rel);
  trace_line("fdopendir", g_fds[fd].rel, 0, d ? 0 : -1, e, -1);
  pthread_mutex_unlock(&g_lock);
  errno = e;
  return d;
}

static ino64_t g_clash_ino = 0;
static char g_clash_path[RELMAX * 2];

static struct dirbuf *find_dir(DIR *d) {
  for (int i = 0; i < MAXDIRS; i++) if (g_dirs[i].dirp == d) return &g_dirs[i];
  return NULL;
}

struct dirent64 *readdir64(DIR *d) {
  vsim_init();
  struct dirbuf *b = g_world ? find_dir(d) : NULL;
  if (!b) return real_readdir64(d);
  pthread_mutex_lock(&g_lock);
  event_begin("readdir", b->rel);
  struct dirent64 *res = NULL;
  int e = errno, rule = -1;
  /* count real entries served so far */
  int served_real = 0;
  for (int i = 0; i < b->pos; i++)
    if (strcmp(b->ents[i].d_name, ".") && strcmp(b->ents[i].d_name, "..")) served_real++;
  if (b->fail_after >= 0 && served_real >= b->fail_after &&
      /* let . and .. pass so the failure lands on a real entry boundary */
      !(b->pos < b->n && (!strcmp(b->ents[b->pos].d_name, ".") || !strcmp(b->ents[b->pos].d_name, "..")))) {
    e = b->fail_errno; rule = b->fail_rule; g_rules[rule].fired = 1;
    trace_line("readdir", b->rel, b->pos, -1, e, rule);
    pthread_mutex_unlock(&g_lock);
    errno = e;
    return NULL;
  }
  if (b->pos < b->n) res = &b->ents[b->pos++];
  /* Inode numbers are unique per file system only. Below a `devno` directory (another device)
   * the first regular file listed gets the inode number of a *.typ file listed earlier outside
   * of it: two unrelated files, (dev, ino) still different, ino alone equal. */
  if (res && res->d_type == DT_REG) {
    int in_other_dev = 0;
    for (int i = 0; i < g_nrules; i++) {
      struct rule *ru = &g_rules[i];
      if (ru->kind != K_DEVNO) continue;
      size_t sl = strlen(ru->sel);
      if (!strcmp(ru->sel, b->rel) || (!strncmp(ru->sel, b->rel, sl) && b->rel[sl] == '/')) in_other_dev = 1;
    }
    size_t nl = strlen(res->d_name);
    if (!in_other_dev && !g_clash_ino && nl > 4 && !strcmp(res->d_name + nl - 4, ".typ")) {
      g_clash_ino = res->d_ino;
    } else if (in_other_dev && g_clash_ino && !g_clash_path[0]) {
      snprintf(g_clash_path, sizeof g_clash_path, "%s%s%s", strcmp(b->rel, ".") ? b->rel : "", strcmp(b->rel, ".") ? "/" : "", res->d_name);
      trace_line("inoclash", g_clash_path, 0, 1, 0, -1); /* (no inode numbers in the log: they differ from run to run) */
    }
    if (g_clash_path[0]) {
      char full[RELMAX * 2];
      snprintf(full, sizeof full, "%s%s%s", strcmp(b->rel, ".") ? b->rel : "", strcmp(b->rel, ".") ? "/" : "", res->d_name);
      if (!strcmp(full, g_clash_path)) res->d_ino = g_clash_ino;
    }
  }
  trace_line("readdir", b->rel, b->pos, res ? 1 : 0, 0, -1);
  pthread_mutex_unlock(&g_lock);
  if (res == NULL) errno = e; /* end of stream leaves errno unchanged */
  return res;
}
struct dirent *readdir(DIR *d) { return (struct dirent *)readdir64(d); }

int closedir(DIR *d) {
  vsim_init();
  struct dirbuf *b = g_world ? find_dir(d) : NULL;
  if (b) {
    pthread_mutex_lock(&g_lock);
    free(b->ents);
    b->ents = NULL;
    b->dirp = NULL;
    pthread_mutex_unlock(&g_lock);
  }
  return real_closedir(d);
}

/* ------------------------------------------------------------------ stat: the size a file claims to have
 * `statsize:<path>:0:<n>`: every stat of a matching in-world file reports st_size = n, as special
 * files do (a FIFO, procfs: size 0 whatever they contain) or as happens when a file grows between
 * the stat and the read. A reader has to read to end of file; the reported size is a hint. */
#include <linux/stat.h>
static int (*real_statx)(int, const char *, int, unsigned int, struct statx *);
int statx(int dirfd, const char *path, int flags, unsigned int mask, struct statx *buf) {
  vsim_init();
  if (!real_statx) real_statx = dlsym(RTLD_NEXT, "statx");
  /* `stat:<path>:1:<errno>`: every stat/lstat of the path fails (a directory the user may list
   * but not search, a stale handle). Issued together with an `openr` rule on the same path: the
   * file cannot be looked at in any way. A descriptor that is already open is not affected. */
  if (g_world && path && path[0]) {
    char srel[RELMAX];
    if (world_rel(dirfd, path, srel)) {
      pthread_mutex_lock(&g_lock);
      for (int i = 0; i < g_nrules; i++) {
        struct rule *ru = &g_rules[i];
        if (ru->kind != K_STAT || !sel_match(ru, srel)) continue;
        event_begin("stat", srel);
        ru->fired = 1;
        trace_line("stat", srel, flags, -1, (int)ru->arg, i);
        pthread_mutex_unlock(&g_lock);
        errno = (int)ru->arg;
        return -1;
      }
      pthread_mutex_unlock(&g_lock);
    }
  }
  int r = real_statx ? real_statx(dirfd, path, flags, mask, buf) : (int)real_syscall(SYS_statx, dirfd, path, flags, mask, buf);
  if (r != 0 && g_world && path && path[0]) {
    /* a failed look at an in-world path is an event too (a tool that stats before it opens and
     * gives up on ENOENT has talked to the simulator all the same) */
    int e0 = errno;
    char frel[RELMAX];
    if (world_rel(dirfd, path, frel)) {
      pthread_mutex_lock(&g_lock);
      event_begin("stat", frel);
      trace_line("stat", frel, flags, -1, e0, -1);
      pthread_mutex_unlock(&g_lock);
    }
    errno = e0;
    return r;
  }
  if (r != 0 || !g_world || !buf) return r;
  int e = errno;
  char rel[RELMAX];
  int have = 0;
  if ((!path || !path[0]) && (flags & AT_EMPTY_PATH)) {
    if (dirfd >= 0 && dirfd < MAXFD && g_fds[dirfd].used && g_fds[dirfd].rel[0] != '@') { snprintf(rel, RELMAX, "%s", g_fds[dirfd].rel); have = 1; }
  } else if (path) {
    have = world_rel(dirfd, path, rel);
  }
  if (have) {
    pthread_mutex_lock(&g_lock);
    /* `devno:<dir>:0:<n>`: everything at or below <dir> lives on another file system (a mount
     * point below the project directory: a volume, a network share, a tmpfs): its device number is
     * reported n higher. Which files are formatted must not depend on it. */
    for (int i = 0; i < g_nrules; i++) {
      struct rule *ru = &g_rules[i];
      if (ru->kind != K_DEVNO) continue;
      size_t sl = strlen(ru->sel);
      if (!strcmp(ru->sel, rel) || (!strncmp(ru->sel, rel, sl) && rel[sl] == '/')) {
        event_begin("devno", rel);
        ru->fired = 1;
        trace_line("devno", rel, (long)buf->stx_dev_minor, ru->arg, 0, i);
        buf->stx_dev_minor += (unsigned)ru->arg;
        if (g_clash_path[0] && !strcmp(rel, g_clash_path)) buf->stx_ino = g_clash_ino;
        break;
      }
    }
    for (int i = 0; i < g_nrules && S_ISREG(buf->stx_mode); i++) {
      struct rule *ru = &g_rules[i];
      if (ru->kind != K_STATSIZE || !sel_match(ru, rel)) continue;
      event_begin("statsize", rel);
      ru->fired = 1;
      trace_line("statsize", rel, (long)buf->stx_size, ru->arg, 0, i);
      buf->stx_size = (unsigned long long)ru->arg;
      break;
    }
    pthread_mutex_unlock(&g_lock);
  }
  errno = e;
  return r;
}

/* ------------------------------------------------------------------ in-kernel copies
 * copy_file_range / sendfile / splice move bytes without read() and write(), i.e. past the seam.
 * In a world process they answer ENOSYS - as under an old kernel or a seccomp filter - and every
 * caller that is prepared for that (std::io::copy is) falls back to read + write, which the
 * simulator owns. */
static int in_kernel_copy_refused(const char *what) {
  vsim_init();
  if (!g_world) return 0;
  pthread_mutex_lock(&g_lock);
  event_begin(what, "-");
  trace_line(what, "-", 0, -1, ENOSYS, -1);
  pthread_mutex_unlock(&g_lock);
  errno = ENOSYS;
  return 1;
}
ssize_t copy_file_range(int fd_in, off64_t *off_in, int fd_out, off64_t *off_out, size_t len, unsigned int flags) {
  if (in_kernel_copy_refused("copy_file_range")) return -1;
  return (ssize_t)real_syscall(SYS_copy_file_range, fd_in, off_in, fd_out, off_out, len, flags);
}
ssize_t sendfile64(int out_fd, int in_fd, off64_t *offset, size_t count) {
  if (in_kernel_copy_refused("sendfile")) return -1;
  return (ssize_t)real_syscall(SYS_sendfile, out_fd, in_fd, offset, count);
}
ssize_t sendfile(int out_fd, int in_fd, off_t *offset, size_t count) { return sendfile64(out_fd, in_fd, (off64_t *)offset, count); }
ssize_t splice(int fd_in, off64_t *off_in, int fd_out, off64_t *off_out, size_t len, unsigned int flags) {
  if (in_kernel_copy_refused("splice")) return -1;
  return (ssize_t)real_syscall(SYS_splice, fd_in, off_in, fd_out, off_out, len, flags);
}

/* ------------------------------------------------------------------ advisory locks
 * `flock:<path>:n:EWOULDBLOCK`: the n-th and later flock()/lockf-style requests on a matching
 * in-world descriptor fail as if another process held the lock (two overlapping runs, an editor
 * hook and a pre-commit hook). Whatever a tool does then - wait, go on without the lock, give
 * up with an error - it must not claim success for work it has not done. */
static int (*real_flock)(int, int);
int flock(int fd, int op) {
  vsim_init();
  if (!real_flock) real_flock = dlsym(RTLD_NEXT, "flock");
  if (g_world && fd >= 0 && fd < MAXFD && g_fds[fd].used && g_fds[fd].rel[0] != '@' && !(op & 8 /* LOCK_UN */)) {
    pthread_mutex_lock(&g_lock);
    event_begin("flock", g_fds[fd].rel);
    for (int i = 0; i < g_nrules; i++) {
      struct rule *ru = &g_rules[i];
      if (ru->kind != K_FLOCK || !sel_match(ru, g_fds[fd].rel)) continue;
      ru->hits++;
      if (ru->hits >= ru->when) {
        ru->fired = 1;
        trace_line("flock", g_fds[fd].rel, op, -1, (int)ru->arg, i);
        pthread_mutex_unlock(&g_lock);
        errno = (int)ru->arg;
        return -1;
      }
    }
    int r = real_flock ? real_flock(fd, op) : -1;
    int e = errno;
    trace_line("flock", g_fds[fd].rel, op, r, e, -1);
    pthread_mutex_unlock(&g_lock);
    errno = e;
    return r;
  }
  return real_flock ? real_flock(fd, op) : -1;
}

/* ------------------------------------------------------------------ thread creation
 * `thread:*:1:EAGAIN` (world process) / VSIM_NOTHREADS=1 (engine B, only from inside a library
 * call): pthread_create fails, as under an address-space limit, RLIMIT_NPROC or a pids cgroup.
 * A program that wanted a helper thread has to do without or report the failure - not pretend
 * the work was done. */
static int (*real_pthread_create)(pthread_t *, const pthread_attr_t *, void *(*)(void *), void *);
static int g_nothreads = -1;
int pthread_create(pthread_t *t, const pthread_attr_t *a, void *(*fn)(void *), void *arg) {
  vsim_init();
  if (!real_pthread_create) real_pthread_create = dlsym(RTLD_NEXT, "pthread_create");
  if (g_world) {
    for (int i = 0; i < g_nrules; i++) {
      struct rule *ru = &g_rules[i];
      if (ru->kind != K_THREAD) continue;
      pthread_mutex_lock(&g_lock);
      event_begin("thread", "-");
      ru->fired = 1;
      trace_line("thread", "-", 0, -1, (int)ru->arg, i);
      pthread_mutex_unlock(&g_lock);
      return (int)ru->arg;
    }
  } else if (g_active) {
    if (g_nothreads < 0) {
      char *x = real_getenv ? real_getenv("VSIM_NOTHREADS") : NULL;
      g_nothreads = (x && x[0] == '1') ? 1 : 0;
    }
    if (g_nothreads && t_clock_sim) return EAGAIN;
  }
  return real_pthread_create(t, a, fn, arg);
}

/* ------------------------------------------------------------------ current directory
 * `getcwd:*:1:ENOENT`: the current directory has been deleted (or is unreadable): getcwd() fails.
 * Relative paths still resolve; only a program that asks where it is notices. */
char *getcwd(char *buf, size_t size) {
  vsim_init();
  if (g_world) {
    for (int i = 0; i < g_nrules; i++) {
      struct rule *ru = &g_rules[i];
      if (ru->kind != K_GETCWD) continue;
      pthread_mutex_lock(&g_lock);
      event_begin("getcwd", "-");
      ru->fired = 1;
      trace_line("getcwd", "-", 0, -1, (int)ru->arg, i);
      pthread_mutex_unlock(&g_lock);
      errno = (int)ru->arg;
      return NULL;
    }
  }
  return real_getcwd(buf, size);
}

/* ------------------------------------------------------------------ terminal-ness
 * `tty:@1:0:1` / `tty:@2:0:1`: isatty() of that descriptor answers 1 (the output still goes to the
 * harness's file). What a tool prints as formatted text, writes to files and returns as exit
 * status must not depend on whether somebody is watching. (Never for fd 0: a tool may
 * legitimately refuse to read a document from a terminal.) */
static int (*real_isatty)(int);
int isatty(int fd) {
  vsim_init();
  if (!real_isatty) real_isatty = dlsym(RTLD_NEXT, "isatty");
  if (g_world && (fd == 1 || fd == 2)) {
    char sel[4];
    snprintf(sel, sizeof sel, "@%d", fd);
    for (int i = 0; i < g_nrules; i++) {
      struct rule *ru = &g_rules[i];
      if (ru->kind == K_TTY && !strcmp(ru->sel, sel)) {
        pthread_mutex_lock(&g_lock);
        event_begin("isatty", sel);
        ru->fired = 1;
        trace_line("isatty", sel, fd, 1, 0, i);
        pthread_mutex_unlock(&g_lock);
        return 1;
      }
    }
  }
  return real_isatty ? real_isatty(fd) : 0;
}

/* ------------------------------------------------------------------ mutating path calls: logged only */
#define LOG_PATH_CALL(sym, dirfd, path, call)                         \
  do {                                                                \
    vsim_init();                                                      \
    char rel[RELMAX];                                                 \
    if (!g_world || !world_rel(dirfd, path, rel)) return call;        \
    pthread_mutex_lock(&g_lock);                                      \
    event_begin(sym, rel);                                            \
    long r = call;                                                    \
    int e = errno;                                                    \
    trace_line(sym, rel, 0, r, e, -1);                                \
    pthread_mutex_unlock(&g_lock);                                    \
    errno = e;                                                        \
    return (int)r;                                                    \
  } while (0)

/* rename onto an in-world destination: `rename:<dest>:n:errno` fails the n-th and later ones
 * (an implementation that writes through a temporary file meets its write fault here) */
static int do_rename(int ad, const char *a, int bd, const char *b) {
  vsim_init();
  char rel[RELMAX];
  if (!g_world || !world_rel(bd, b, rel)) return real_renameat(ad, a, bd, b);
  pthread_mutex_lock(&g_lock);
  event_begin("rename", rel);
  int ri = -1;
  for (int i = 0; i < g_nrules; i++) {
    struct rule *r = &g_rules[i];
    if (r->kind != K_RENAME || !sel_match(r, rel)) continue;
    r->hits++;
    if (ri < 0 && r->hits >= r->when) { r->fired = 1; ri = i; }
  }
  if (ri >= 0) {
    int e = (int)g_rules[ri].arg;
    trace_line("rename", rel, 0, -1, e, ri);
    pthread_mutex_unlock(&g_lock);
    errno = e;
    return -1;
  }
  int r = real_renameat(ad, a, bd, b);
  int e = errno;
  trace_line("rename", rel, 0, r, e, -1);
  pthread_mutex_unlock(&g_lock);
  errno = e;
  return r;
}
int rename(const char *a, const char *b) { return do_rename(AT_FDCWD, a, AT_FDCWD, b); }
int renameat(int ad, const char *a, int bd, const char *b) { return do_rename(ad, a, bd, b); }
int unlink(const char *a) { LOG_PATH_CALL("unlink", AT_FDCWD, a, real_unlink(a)); }
int unlinkat(int d, const char *a, int fl) { LOG_PATH_CALL("unlink", d, a, real_unlinkat(d, a, fl)); }
int truncate64(const char *a, off_t l) { LOG_PATH_CALL("truncate", AT_FDCWD, a, real_truncate64(a, l)); }
int truncate(const char *a, off_t l) { LOG_PATH_CALL("truncate", AT_FDCWD, a, real_truncate64(a, l)); }
int mkdir(const char *a, mode_t m) { LOG_PATH_CALL("mkdir", AT_FDCWD, a, real_mkdir(a, m)); }
int symlink(const char *t, const char *a) { LOG_PATH_CALL("symlink", AT_FDCWD, a, real_symlink(t, a)); }
int link(const char *t, const char *a) { LOG_PATH_CALL("link", AT_FDCWD, a, real_link(t, a)); }
int ftruncate64(int fd, off_t l) {
  vsim_init();
  if (!(g_world && fd >= 0 && fd < MAXFD && g_fds[fd].used)) return real_ftruncate64(fd, l);
  pthread_mutex_lock(&g_lock);
  event_begin("ftruncate", g_fds[fd].rel);
  int r = real_ftruncate64(fd, l);
  int e = errno;
  trace_line("ftruncate", g_fds[fd].rel, (long)l, r, e, -1);
  pthread_mutex_unlock(&g_lock);
  errno = e;
  return r;
}
int ftruncate(int fd, off_t l) { return ftruncate64(fd, l); }

/* ------------------------------------------------------------------ environment (engine B, world B)
 * With VSIM_ENVJUNK=1, a getenv() made by a thread that is inside a library call (the harness
 * marks that with vsim_thread_clock(1)) for a variable that is NOT set answers "1" instead of
 * NULL. Reference world A leaves it NULL. A library whose result depends on any environment
 * variable therefore disagrees between the two worlds, whatever the variable is called. */
static int getenv_world(void) {
  static int w = -1;
  if (w < 0) { char *x = real_getenv ? real_getenv("VSIM_ROOT") : NULL; w = (x && x[0] == '/') ? 1 : 0; }
  return w;
}
static int g_env_junk = -1;
char *getenv(const char *name) {
  if (!real_getenv) real_getenv = dlsym(RTLD_NEXT, "getenv");
  char *r = real_getenv ? real_getenv(name) : NULL;
  if (g_env_junk < 0) {
    char *j = real_getenv ? real_getenv("VSIM_ENVJUNK") : NULL;
    g_env_junk = (j && j[0] == '1') ? 1 : 0;
  }
  /* engine B: only from inside a library call; engine A (world process): everywhere */
  if (r || !g_env_junk || !(t_clock_sim || getenv_world()) || !name) return r;
  if (!strncmp(name, "TMP", 3) || !strncmp(name, "TEMP", 4) || !strcmp(name, "HOME") || !strncmp(name, "XDG_", 4)) return r;
  if (!strncmp(name, "RUST", 4) || !strncmp(name, "MIRI", 4) || !strncmp(name, "LD_", 3) || !strncmp(name, "VSIM", 4) ||
      !strncmp(name, "MALLOC", 6) || !strncmp(name, "GLIBC", 5))
    return r;
  return (char *)"1";
}

/* ------------------------------------------------------------------ clock & randomness */
/* In a world process (the CLI under test) every clock read is simulated. In an engine-B process
 * the harness itself needs real time (watchdogs, condition-variable timeouts), so the simulated
 * clock is served only to threads that asked for it - the harness switches it on around each
 * library call and off inside its own scheduler callback. */
void vsim_thread_clock(int on) { t_clock_sim = on; }

int clock_gettime(clockid_t clk, struct timespec *ts) {
  vsim_init();
  if (!g_active || !(g_world || t_clock_sim) || clk == CLOCK_PROCESS_CPUTIME_ID || clk == CLOCK_THREAD_CPUTIME_ID)
    return real_clock_gettime(clk, ts);
  pthread_mutex_lock(&g_lock);
  g_clock_calls++;
  int rule = -1;
  if (g_world) {
    event_begin("clock", "-");
    for (int i = 0; i < g_nrules; i++) {
      struct rule *r = &g_rules[i];
      if (r->kind == K_CLOCKJUMP && !r->fired && (long)g_clock_calls >= r->when) {
        r->fired = 1; g_clock_jump += r->arg; rule = i;
      }
    }
  }
  if (!g_world) {
    /* engine B: the simulated clock also leaps (a suspended process, a loaded machine, an NTP
     * step): every read advances by the seeded delta and, one time in eight, by 1..120 s more */
    uint64_t j = splitmix(&g_rand_state);
    if ((j & 7) == 0) g_clock_jump += (int64_t)(1 + (j >> 8) % 120) * 1000000000LL;
  }
  uint64_t s = g_seed;
  /* the simulated 'now' lies in 2026..2029, so that a large jump crosses 2038-01-19 */
  uint64_t base_s = 1790000000ULL + splitmix(&s) % 100000000ULL;
  {
    /* VSIM_CLOCK_BASE: a machine whose clock was never set (year 2001, say) */
    static long long forced = -1;
    if (forced == -1) { char *x = real_getenv ? real_getenv("VSIM_CLOCK_BASE") : NULL; forced = x ? atoll(x) : 0; }
    if (forced > 0) base_s = (uint64_t)forced;
  }
  uint64_t delta = 1000ULL + splitmix(&s) % 5000000ULL; /* ns per clock read */
  /* a jump backwards (an NTP step, a user setting the clock) only ever shows on the wall clock */
  int64_t jump = g_clock_jump;
  if (jump < 0 && clk != CLOCK_REALTIME && clk != CLOCK_REALTIME_COARSE) jump = 0;
  int64_t total = (int64_t)(g_clock_calls * delta) + jump;
  if (total < 0) total = 0;
  uint64_t ns = (uint64_t)total;
  ts->tv_sec = (time_t)(base_s + ns / 1000000000ULL);
  ts->tv_nsec = (long)(ns % 1000000000ULL);
  if (g_world) trace_line("clock", "-", clk, 0, 0, rule);
  pthread_mutex_unlock(&g_lock);
  return 0;
}

static void fill_random(void *buf, size_t len) {
  unsigned char *p = buf;
  while (len) {
    uint64_t v = splitmix(&g_rand_state);
    size_t k = len < 8 ? len : 8;
    memcpy(p, &v, k);
    p += k;
    len -= k;
  }
}

ssize_t getrandom(void *buf, size_t len, unsigned int flags) {
  vsim_init();
  if (!g_active) return real_getrandom ? real_getrandom(buf, len, flags) : (ssize_t)real_syscall(SYS_getrandom, buf, len, flags);
  pthread_mutex_lock(&g_lock);
  if (g_world) event_begin("getrandom", "-");
  fill_random(buf, len);
  if (g_world) trace_line("getrandom", "-", (long)len, (long)len, 0, -1);
  pthread_mutex_unlock(&g_lock);
  return (ssize_t)len;
}

/* the pid is a popular ingredient of temporary file names; the CLI is a single process, so a
 * constant keeps such names - and with them the trace - a function of the seed */
pid_t getpid(void) {
  vsim_init();
  if (g_world) return 4242;
  return (pid_t)real_syscall(SYS_getpid);
}

pid_t gettid(void) {
  vsim_init();
  if (g_world) return 4242;
  return (pid_t)real_syscall(SYS_gettid);
}

long syscall(long number, ...) {
  vsim_init();
  va_list ap;
  va_start(ap, number);
  long a1 = va_arg(ap, long), a2 = va_arg(ap, long), a3 = va_arg(ap, long);
  long a4 = va_arg(ap, long), a5 = va_arg(ap, long), a6 = va_arg(ap, long);
  va_end(ap);
  if (g_active && number == SYS_getrandom) return (long)getrandom((void *)a1, (size_t)a2, (unsigned int)a3);
  /* the OS thread id shows up in panic messages ("thread 'main' (1234) panicked"); the CLI is
   * single threaded, so a constant keeps message lengths - and with them the event trace -
   * a pure function of the seed */
  if (g_world && (number == SYS_gettid || number == SYS_getpid)) return 4242;
  if (g_world && (number == SYS_copy_file_range || number == SYS_sendfile || number == SYS_splice)) { errno = ENOSYS; return -1; }
  if (g_world && number == SYS_statx) return statx((int)a1, (const char *)a2, (int)a3, (unsigned int)a4, (struct statx *)a5);
  return real_syscall(number, a1, a2, a3, a4, a5, a6);
}
