//! Lane B3 of engine B (C17): the library under Miri's seeded scheduler.
//!
//! `MIRIFLAGS="-Zmiri-many-seeds=0..N -Zmiri-preemption-rate=0.1" cargo +nightly miri run -- <scenario>`
//! Miri preempts at basic-block granularity and reports data races and undefined behaviour;
//! the scenario itself asserts that every concurrent result equals the result of the same call
//! made alone, before any thread was started. A failing seed is replayed with -Zmiri-seed=<n>.

use std::sync::Arc;

use typst_syntax::Source;
use typstyle_core::{Config, Typstyle};

fn cfg(width: usize, tab: usize, reorder: bool) -> Config {
    Config { max_width: width, tab_spaces: tab, reorder_import_items: reorder, ..Default::default() }
}

const DOCS: &[&[&str]] = &[
    // 0: shape twins (same tree shape, different attributes) + a shared source
    &[
        "#let f(a, b) = (a, /* note 1 */ b)\n#f(1,\n 2)\n",
        "#let f(a, b) = (a, /* @typstyle off */ b)\n#f(1, 2)\n",
    ],
    // 1: import lists (reorder on/off, duplicate names guard, same path under two aliases)
    &[
        "#import \"m.typ\": d, c as x, b, a\n",
        "#import \"m.typ\": u as h, u as t, u, a\n",
    ],
    // 2: nesting, math, markup
    &[
        "#let x = ((1, (2, (3, (4, [#(5,)])))), f(g(h(1))))\n",
        "= T\n- a\n  - b\n$ x^2 + sum_(i=0)^n i $\n",
    ],
    // 3: decisions that depend on the configuration, taken many times (dot chains whose head
    // lies between the chain-width thresholds of the two page widths; a table)
    &[
        "#let a = alpha0001.bravo0001.charlie0001(1)\n#let b = alpha0002.bravo0002.charlie0002(2)\n#let c = alpha0003.bravo0003.charlie0003(3)\n#let d = alpha0004.bravo0004.charlie0004(4)\n",
        "#table(columns: 2, [a], [b], [c], [d])\n#let e = alpha0005.bravo0005.charlie0005(5)\n",
    ],
];

fn run_call(kind: usize, text: &str, shared: &Source, c: &Config) -> String {
    match kind % 4 {
        0 => Typstyle::new(c.clone()).format_content(text).unwrap_or_else(|_| "<err>".into()),
        1 => Typstyle::new(c.clone()).format_source(shared).unwrap_or_else(|_| "<err>".into()),
        2 => typstyle_core::format_with_width(text, c.max_width),
        _ => match Typstyle::new(c.clone()).format_source_range(shared, 0..text.len().min(12)) {
            Ok((r, s)) => format!("{:?} {}", r, s),
            Err(_) => "<err>".into(),
        },
    }
}

/// Scenario 4: many tiny calls in flight. Every thread formats only its own one-line document,
/// over and over, so any cross-talk between concurrent calls (a result, a buffer or a reply
/// handed to the wrong caller) shows at once, and the calls are cheap enough under Miri to make
/// dozens of them per seed.
fn many_tiny_calls() {
    let nthreads = 3;
    // (two of the lines end in blanks outside ASCII - U+00A0, U+3000 -: whatever trims or measures
    // text differently on a contended and an uncontended path shows here)
    let docs: [&'static str; 3] = ["a  a\u{a0}\n", "= B\u{3000}\n", "#c( 3 )\n"];
    let cfgs = [cfg(80, 2, false), cfg(20, 4, true), cfg(120, 2, false)];
    let refs: Vec<String> = (0..nthreads).map(|t| Typstyle::new(cfgs[t].clone()).format_content(docs[t]).unwrap_or_else(|_| "<err>".into())).collect();
    let refs = Arc::new(refs);
    let mut hs = Vec::new();
    for t in 0..nthreads {
        let refs = refs.clone();
        let c = cfgs[t].clone();
        hs.push(std::thread::spawn(move || {
            for round in 0..36 {
                let got = if round % 3 == 2 {
                    typstyle_core::format_with_width(docs[t], c.max_width)
                } else {
                    Typstyle::new(c.clone()).format_content(docs[t]).unwrap_or_else(|_| "<err>".into())
                };
                if round % 3 != 2 {
                    assert_eq!(got, refs[t], "C17 violated under Miri: call of thread {} in round {} differs from its solo result", t, round);
                }
            }
        }));
    }
    for h in hs {
        h.join().expect("thread panicked");
    }
    println!("miri-lane scenario 4 ok");
}

fn main() {
    let args: Vec<String> = std::env::args().collect();
    if args.get(1).map(|s| s == "4").unwrap_or(false) {
        return many_tiny_calls();
    }
    // `gen <doc0> <doc1> <width0> <width1>`: documents drawn by the harness from the seeded
    // generator (thorough tier); otherwise a built-in scenario by index
    let generated: Option<Vec<&'static str>> = if args.get(1).map(|s| s == "gen").unwrap_or(false) && args.len() >= 6 {
        Some(vec![Box::leak(args[2].clone().into_boxed_str()) as &'static str, Box::leak(args[3].clone().into_boxed_str()) as &'static str])
    } else {
        None
    };
    let scen: usize = if generated.is_some() { 3 } else { args.get(1).and_then(|s| s.parse().ok()).unwrap_or(0) % DOCS.len() };
    let docs: &[&'static str] = match &generated {
        Some(v) => Box::leak(v.clone().into_boxed_slice()),
        None => DOCS[scen],
    };
    // two configurations that are active at the same time in different threads
    let cfgs = if generated.is_some() {
        let w0 = args[4].parse().unwrap_or(120);
        let w1 = args[5].parse().unwrap_or(40);
        [cfg(w0, 2, false), cfg(w1, 4, true)]
    } else if scen == 3 {
        [cfg(120, 2, false), cfg(40, 4, true)]
    } else {
        [cfg(80, 2, false), cfg(20, 4, true)]
    };
    let sources: Arc<Vec<Source>> = Arc::new(docs.iter().map(|d| Source::detached(*d)).collect());
    // the call table: (doc, config, kind); small, because Miri is ~1000x slower than native
    let mut table: Vec<(usize, usize, usize)> = Vec::new();
    for di in 0..docs.len() {
        if scen == 3 {
            // the same text under both configurations, so that two threads are inside
            // configuration-dependent decisions with different configurations at the same time
            table.push((di, 0, 0));
            table.push((di, 1, 0));
        } else {
            table.push((di, 0, 0)); // format_content, default config
            table.push((di, 1, 1)); // format_source on the shared Source, narrow + reorder
            table.push((di, 0, 3)); // format_source_range on the shared Source
        }
    }
    // sequential references, before any thread exists
    let refs: Arc<Vec<String>> = Arc::new(table.iter().map(|(di, ci, kind)| run_call(*kind, docs[*di], &sources[*di], &cfgs[*ci])).collect());
    let table = Arc::new(table);
    let nthreads = if scen == 3 { 2 } else { 3 };
    let mut hs = Vec::new();
    for t in 0..nthreads {
        let (sources, refs, table) = (sources.clone(), refs.clone(), table.clone());
        let cfgs = cfgs.clone();
        hs.push(std::thread::spawn(move || {
            // every thread walks the whole table from a different offset: the same shared Source
            // is formatted by all threads at once, interleaved with the twin document
            for step in 0..table.len() {
                let i = (step + (if table.len() == 4 { 1 } else { 2 }) * t) % table.len();
                let (di, ci, kind) = table[i];
                let got = run_call(kind, docs[di], &sources[di], &cfgs[ci]);
                assert_eq!(got, refs[i], "C17 violated under Miri: call {} differs from its solo result", i);
            }
        }));
    }
    for h in hs {
        h.join().expect("thread panicked");
    }
    println!("miri-lane scenario {} ok", if generated.is_some() { "gen".to_string() } else { scen.to_string() });
}
