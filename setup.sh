#!/bin/bash
# Run once after a fresh restore, offline: builds the interposer, the CLI and the harness from
# files on disk only.
set -eu
cd "$(dirname "$0")"
./check build
