#!/bin/bash
# Run once after a fresh restore, offline: builds the interposer, the CLI and the harness from
# files on disk only.
set -eu
cd "$(dirname "$0")"
./check build
# warm the Miri lane's build (lane B3 of the C17 check); if Miri is not usable the lane reports
# itself as unavailable and the rest of the check still runs
( cd miri-lane && MIRIFLAGS="-Zmiri-tree-borrows" CARGO_TARGET_DIR="${VERIF_TARGET:-$PWD/../.target}/miri" CARGO_NET_OFFLINE=true cargo +nightly miri run --offline -- 3 >/dev/null 2>&1 ) || echo "[setup] warning: the Miri lane could not be built/run" >&2
