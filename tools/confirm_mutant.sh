#!/bin/bash
# Confirms a seeded change produced by a sub-agent, in ITS scratch worktree (never in /repo):
#   usage: confirm_mutant.sh <worktree> <mutant-dir>
# (1) patch applies, (2) workspace builds, (3) test suite still 1923 passed / 14 e2e failed,
# (4) demo fails with the change, (5) demo passes without it. Leaves the worktree clean.
set -u
wt="$1"; d="$2"
export CARGO_NET_OFFLINE=true
cd "$wt" || exit 2
git checkout -q -- . ; git clean -fdq -e target
out="$d/confirm.log"; : > "$out"
if ! git apply "$d/patch.diff" 2>>"$out"; then echo "RESULT apply=FAIL" | tee -a "$out"; exit 1; fi
cargo build --workspace --offline >>"$out" 2>&1 && b=ok || b=FAIL
t=$(cargo nextest run --workspace --no-fail-fast --test-threads 8 --offline 2>&1 | tee -a "$out" | grep -E "^\s+Summary" | tail -1)
cargo build -p typstyle --offline >>"$out" 2>&1
bash "$d/demo.sh" "$wt/target/debug/typstyle" "$wt" >>"$out" 2>&1; with=$?
git checkout -q -- . ; git clean -fdq -e target
cargo build -p typstyle --offline >>"$out" 2>&1
bash "$d/demo.sh" "$wt/target/debug/typstyle" "$wt" >>"$out" 2>&1; without=$?
git checkout -q -- . ; git clean -fdq -e target
echo "RESULT apply=ok build=$b tests=[$t] demo_with_change=$with demo_without=$without" | tee -a "$out"
