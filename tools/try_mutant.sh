#!/bin/bash
# Applies a seeded change to /repo, runs the given check(s), and undoes it straight afterwards.
#   usage: try_mutant.sh <patch.diff> <property> [tier] [extra args]
set -u
p="$1"; prop="$2"; tier="${3:-quick}"; shift; shift; shift || true
cd /repo || exit 2
if [ -n "$(git status --porcelain)" ]; then echo "/repo not clean"; exit 2; fi
git apply "$p" || git apply -3 "$p" || { echo "patch does not apply"; git reset -q --hard HEAD; exit 2; }
start=$(date +%s)
( cd /verif && VERIF_EVIDENCE_SUFFIX=.mutant ./check "$prop" "$tier" --evidence /tmp/evidence-mutant.json "$@" ) 2>&1 | grep -v conda | grep -E "VIOLATION|invariant|HARNESS|KNOWN|clisim:|coresim:|argv|seed=" | head -20
rc=${PIPESTATUS[0]}
echo "check exit=$rc  ($(( $(date +%s) - start )) s)"
git -C /repo reset -q --hard HEAD ; git -C /repo clean -fdq ; git -C /repo status --short
