#!/usr/bin/env python3
"""Prints the markdown table of DESIGN.md 12.4 from seeded/*/meta.json."""
import json, glob, os, re
rows = []
for m in sorted(glob.glob(os.path.join(os.path.dirname(__file__), '..', 'seeded', '*', 'meta.json'))):
    d = json.load(open(m))
    det = d['detection']
    first = 'caught'
    if det.startswith('MISSED') or det.startswith('NOT reachable') or det.startswith('not visible') or det.startswith('reachable by lane B1 only'):
        first = '**missed**'
    elif det.startswith('barely'):
        first = 'barely (1 case)'
    elif det.startswith('tested only after'):
        first = 'not known'
    elif det.startswith('NOT DETECTED'):
        first = 'not detected'
    now = det.split('now ')[-1] if 'now ' in det else det
    if det.startswith('NOT DETECTED'):
        now = 'not detected (judged to break C05, see 12.8); reported as NOTE'
    if 'Miri scenario 4' in det:
        now = 'C17 quick: V17.5-miri-result (Miri scenario 4)'
    now = now.replace('./check ', '').replace('|', '/')
    def short(s, n):
        s = s.replace('|', '/')
        return s if len(s) <= n else s[: n - 3] + '...'
    rows.append((d['id'], d['breaks_property'], short(d['what'], 150), short(d['needs_to_manifest'], 120), first, short(now, 110)))
print('| id | prop | change | needs | first | now |')
print('|---|---|---|---|---|---|')
for r in rows:
    print('| ' + ' | '.join(r) + ' |')
