//! Baton scheduler over real OS threads: only the choice of who runs is simulated.
//!
//! Exactly one thread runs between two points. If the thread holding the baton makes no
//! progress for a long real-time interval (it is blocked on a real lock owned by a parked
//! thread - something a correct library is allowed to do), a waiting thread takes the baton
//! over, so the simulator itself can never create a deadlock or a false alarm; such take-overs
//! are counted and are expected to be zero on a lock-free library.

use std::sync::{Condvar, Mutex};
use std::time::{Duration, Instant};

use super::{Abandon, Policy};
use crate::rng::Rng;

pub struct AbandonSignal;

pub const BOUNDARY_INVOKE: &str = "call:invoke";
pub const BOUNDARY_RETURN: &str = "call:return";

pub struct Decider {
    policy: Policy,
    rng: Rng,
    priorities: Vec<u32>,
    change_points: Vec<u64>,
    stall_victim: usize,
    stall_from: u64,
    stall_len: u64,
}

impl Decider {
    pub fn new(policy: Policy, seed: u64, nthreads: usize, est_yields: u64) -> Decider {
        let mut rng = Rng::stream(seed, "schedule");
        let mut priorities: Vec<u32> = (0..nthreads as u32).map(|i| i + 10).collect();
        rng.shuffle(&mut priorities);
        let mut change_points = Vec::new();
        if let Policy::Pct { d } = &policy {
            for _ in 0..*d {
                change_points.push(rng.below(est_yields.max(1) as usize) as u64);
            }
        }
        let stall_victim = rng.below(nthreads.max(1));
        let stall_from = rng.below((est_yields / 2).max(1) as usize) as u64;
        let stall_len = (est_yields / 2).max(50);
        Decider { policy, rng, priorities, change_points, stall_victim, stall_from, stall_len }
    }

    fn random_other(&mut self, cur: usize, runnable: &[bool]) -> usize {
        let others: Vec<usize> = (0..runnable.len()).filter(|t| runnable[*t] && *t != cur).collect();
        if others.is_empty() {
            cur
        } else {
            others[self.rng.below(others.len())]
        }
    }

    /// who runs after yield number `idx`, reached by `cur` at `site`
    pub fn choose(&mut self, cur: usize, cur_runnable: bool, runnable: &[bool], idx: u64, site: &str) -> usize {
        let fallback = |runnable: &[bool]| -> usize {
            if cur_runnable {
                cur
            } else {
                (0..runnable.len()).find(|t| runnable[*t]).unwrap_or(cur)
            }
        };
        if !runnable.iter().any(|r| *r) {
            return cur;
        }
        match &self.policy {
            Policy::Explicit(list) => match list.get(idx as usize) {
                Some(t) if (*t as usize) < runnable.len() && runnable[*t as usize] => *t as usize,
                _ => fallback(runnable),
            },
            Policy::Uniform { p_milli } => {
                let p = *p_milli as f64 / 1000.0;
                if !cur_runnable || self.rng.chance(p) {
                    let t = self.random_other(cur, runnable);
                    if t == cur && !cur_runnable { fallback(runnable) } else { t }
                } else {
                    cur
                }
            }
            Policy::CallAtomic => {
                if !cur_runnable || ((site == BOUNDARY_INVOKE || site == BOUNDARY_RETURN) && self.rng.chance(0.5)) {
                    let t = self.random_other(cur, runnable);
                    if t == cur && !cur_runnable { fallback(runnable) } else { t }
                } else {
                    cur
                }
            }
            Policy::Pct { .. } => {
                if self.change_points.contains(&idx) && cur < self.priorities.len() {
                    // demote the running thread below everyone
                    let min = self.priorities.iter().copied().min().unwrap_or(0);
                    self.priorities[cur] = min.saturating_sub(1);
                }
                let mut best = None;
                for t in 0..runnable.len() {
                    if runnable[t] && best.map(|b: usize| self.priorities[t] > self.priorities[b]).unwrap_or(true) {
                        best = Some(t);
                    }
                }
                best.unwrap_or(cur)
            }
            Policy::Stall { p_milli } => {
                let p = *p_milli as f64 / 1000.0;
                let stalled = idx >= self.stall_from && idx < self.stall_from + self.stall_len;
                let mut view: Vec<bool> = runnable.to_vec();
                if stalled && self.stall_victim < view.len() && view.iter().enumerate().any(|(t, r)| *r && t != self.stall_victim) {
                    view[self.stall_victim] = false;
                }
                let cur_ok = cur_runnable && view[cur];
                if !cur_ok || self.rng.chance(p) {
                    let others: Vec<usize> = (0..view.len()).filter(|t| view[*t] && *t != cur).collect();
                    if others.is_empty() {
                        if cur_ok { cur } else { (0..view.len()).find(|t| view[*t]).unwrap_or(cur) }
                    } else {
                        others[self.rng.below(others.len())]
                    }
                } else {
                    cur
                }
            }
        }
    }
}

#[derive(Default, Clone, Debug)]
pub struct SchedStats {
    pub yields: u64,
    pub switches: u64,
    pub switches_inside_call: u64,
    pub abandons_fired: u64,
    pub takeovers: u64,
    pub max_concurrent_in_call: usize,
    /// yields at which >= 2 threads were inside a `Source`-sharing call on the same document
    pub same_source_overlap: u64,
    pub switch_digest: u64,
    pub log_digest: u64,
}

struct Inner {
    current: usize,
    started: bool,
    runnable: Vec<bool>,
    /// (call index, points passed inside this call, doc index if the call shares a Source)
    in_call: Vec<Option<(usize, u32, Option<usize>)>>,
    decider: Decider,
    decisions: Vec<u8>,
    abandons: Vec<Abandon>,
    stats: SchedStats,
    last_progress: Instant,
    /// threads currently parked inside `wait_for_baton` (a thread that is runnable but not here
    /// and not `current` is blocked on something real, e.g. a lock of the library)
    parked: Vec<bool>,
    /// OS thread ids (to look at a thread's kernel state) and consecutive "sleeping" observations
    tids: Vec<i32>,
    suspect: Vec<u32>,
}

pub struct Sched {
    inner: Mutex<Inner>,
    cv: Condvar,
}

const TAKEOVER_AFTER: Duration = Duration::from_millis(1500);

fn roll(d: u64, x: u64) -> u64 {
    (d ^ x).wrapping_mul(0x0000_0100_0000_01b3).rotate_left(5)
}

impl Sched {
    pub fn new(nthreads: usize, decider: Decider, abandons: Vec<Abandon>) -> Sched {
        Sched {
            inner: Mutex::new(Inner {
                current: usize::MAX,
                started: false,
                runnable: vec![true; nthreads],
                in_call: vec![None; nthreads],
                decider,
                decisions: Vec::new(),
                abandons,
                stats: SchedStats::default(),
                last_progress: Instant::now(),
                parked: vec![false; nthreads],
                tids: vec![0; nthreads],
                suspect: vec![0; nthreads],
            }),
            cv: Condvar::new(),
        }
    }

    /// main thread: release the first thread
    pub fn start(&self) {
        let mut g = self.inner.lock().unwrap();
        let runnable = g.runnable.clone();
        let first = g.decider.choose(0, true, &runnable, 0, "start");
        g.decisions.push(first as u8);
        g.current = first;
        g.started = true;
        g.last_progress = Instant::now();
        self.cv.notify_all();
    }

    fn wait_for_baton<'a>(&'a self, mut g: std::sync::MutexGuard<'a, Inner>, tid: usize) -> std::sync::MutexGuard<'a, Inner> {
        while g.current != tid {
            g.parked[tid] = true;
            let (ng, to) = self.cv.wait_timeout(g, Duration::from_millis(5)).unwrap();
            g = ng;
            if g.current == tid || !to.timed_out() || !g.started {
                continue;
            }
            let h = g.current;
            if h >= g.runnable.len() || g.parked[h] {
                // the holder has been chosen but has not woken up yet: it is on its way
                continue;
            }
            // Is the holder blocked on something real (a lock of the library owned by a parked
            // thread)? It is not parked here, so if the kernel says it sleeps, it waits for
            // something the simulator does not own. Two observations in a row, or no progress for
            // a long time, and the lowest really parked thread takes the baton over; if that one
            // blocks too the next follows, until the owner of the lock runs again.
            // (a thread that passes points is never suspected: between two points of a running
            // call there are microseconds, not 10 ms)
            let sleeping = g.last_progress.elapsed() > Duration::from_millis(10) && thread_sleeps(g.tids[h]);
            if sleeping {
                g.suspect[h] += 1;
            } else {
                g.suspect[h] = 0;
            }
            if g.suspect[h] >= 2 || g.last_progress.elapsed() > TAKEOVER_AFTER {
                let lowest_parked = (0..g.runnable.len()).find(|t| g.runnable[*t] && g.parked[*t] && *t != h);
                if lowest_parked == Some(tid) {
                    g.stats.takeovers += 1;
                    g.suspect[h] = 0;
                    g.current = tid;
                    g.last_progress = Instant::now();
                    self.cv.notify_all();
                }
            }
        }
        g.parked[tid] = false;
        g
    }

    /// real time since any thread last passed a point (for the global watchdog)
    pub fn stalled_for(&self) -> Duration {
        self.inner.lock().unwrap().last_progress.elapsed()
    }

    /// every thread calls this first
    pub fn wait_start(&self, tid: usize) {
        let mut g = self.inner.lock().unwrap();
        g.tids[tid] = unsafe { libc::syscall(libc::SYS_gettid) } as i32;
        let _g = self.wait_for_baton(g, tid);
    }

    pub fn begin_call(&self, tid: usize, call: usize, shared_doc: Option<usize>) {
        {
            let mut g = self.inner.lock().unwrap();
            g.in_call[tid] = Some((call, 0, shared_doc));
        }
        self.point(tid, BOUNDARY_INVOKE);
    }

    pub fn end_call(&self, tid: usize) {
        {
            let mut g = self.inner.lock().unwrap();
            g.in_call[tid] = None;
        }
        self.point(tid, BOUNDARY_RETURN);
    }

    /// a scheduling point reached by thread `tid`
    pub fn point(&self, tid: usize, site: &'static str) {
        let g = self.inner.lock().unwrap();
        let mut g = self.wait_for_baton(g, tid);
        g.last_progress = Instant::now();
        let idx = g.stats.yields;
        g.stats.yields += 1;
        g.stats.log_digest = roll(g.stats.log_digest, (tid as u64) << 32 ^ crate::rng::fnv(site.as_bytes()));
        // abandon?
        let boundary = site == BOUNDARY_INVOKE || site == BOUNDARY_RETURN;
        if !boundary {
            if let Some((call, k, doc)) = g.in_call[tid] {
                let k = k + 1;
                g.in_call[tid] = Some((call, k, doc));
                if let Some(pos) = g.abandons.iter().position(|a| a.tid == tid && a.call == call && a.point == k) {
                    g.abandons.remove(pos);
                    g.stats.abandons_fired += 1;
                    drop(g);
                    std::panic::panic_any(AbandonSignal);
                }
            }
        }
        // reach probes
        let inside = g.in_call.iter().filter(|c| c.is_some()).count();
        if inside > g.stats.max_concurrent_in_call {
            g.stats.max_concurrent_in_call = inside;
        }
        if let Some((_, _, Some(d))) = g.in_call[tid] {
            if g.in_call.iter().enumerate().any(|(t, c)| t != tid && matches!(c, Some((_, _, Some(d2))) if *d2 == d)) {
                g.stats.same_source_overlap += 1;
            }
        }
        let runnable = g.runnable.clone();
        let next = g.decider.choose(tid, true, &runnable, idx + 1, site);
        g.decisions.push(next as u8);
        if next != tid {
            g.stats.switches += 1;
            if g.in_call[tid].is_some() && !boundary {
                g.stats.switches_inside_call += 1;
            }
            g.stats.switch_digest = roll(g.stats.switch_digest, idx << 16 ^ (tid as u64) << 8 ^ next as u64);
            g.current = next;
            self.cv.notify_all();
            let _g = self.wait_for_baton(g, tid);
        }
    }

    /// thread `tid` has finished its script
    pub fn finish(&self, tid: usize) {
        let g = self.inner.lock().unwrap();
        let mut g = self.wait_for_baton(g, tid);
        g.runnable[tid] = false;
        g.in_call[tid] = None;
        g.last_progress = Instant::now();
        let idx = g.stats.yields;
        g.stats.yields += 1;
        if g.runnable.iter().any(|r| *r) {
            let runnable = g.runnable.clone();
            let next = g.decider.choose(tid, false, &runnable, idx + 1, "finish");
            g.decisions.push(next as u8);
            g.current = next;
        } else {
            g.decisions.push(tid as u8);
            g.current = usize::MAX - 1;
        }
        self.cv.notify_all();
    }

    pub fn take_results(&self) -> (Vec<u8>, SchedStats) {
        let g = self.inner.lock().unwrap();
        (g.decisions.clone(), g.stats.clone())
    }
}

/// kernel state of a thread of this process: true if it sleeps (blocked), false if it runs, is
/// runnable, or cannot be determined
fn thread_sleeps(tid: i32) -> bool {
    if tid <= 0 {
        return false;
    }
    let Ok(stat) = std::fs::read_to_string(format!("/proc/self/task/{}/stat", tid)) else { return false };
    // "pid (comm) S ..." - comm may contain spaces and parentheses: take what follows the last ')'
    match stat.rfind(')') {
        Some(i) => stat[i + 1..].trim_start().starts_with('S'),
        None => false,
    }
}
