//! Engine B: interleaved callers of the library (C17). DESIGN.md section 5.
//!
//! K real OS threads run scripts of calls into the real typstyle-core (built from /repo with
//! `--cfg typstyle_verif`). At every `verif::point` the thread meets the simulator: a seeded
//! scheduler decides who runs next (baton hand-off, exactly one thread runs between two
//! points), and may abandon (unwind) the current call. Every returned result is compared with
//! a reference obtained from a fresh single-call process, in two different "worlds".

pub mod exec;
pub mod refproc;
pub mod sched;
pub mod shrink;
pub mod workload;

use serde::{Deserialize, Serialize};

use crate::oracle::Cfg;

#[derive(Serialize, Deserialize, Clone, Debug, PartialEq, Eq, Hash)]
pub enum Op {
    /// `Typstyle::new(cfg).format_content(text)`
    Content,
    /// `Typstyle::new(cfg).format_source(&shared_source)` - the Source is shared by all threads
    Source,
    /// `format_source_inspect` with an inspector that renders the document once more
    Inspect,
    /// `shared_typstyle.format_source_range(&shared_source, range)`
    Range { start: usize, end: usize },
    /// `format_with_width(text, cfg.column)`
    Width,
}

#[derive(Serialize, Deserialize, Clone, Debug, PartialEq, Eq, Hash)]
pub struct Call {
    pub op: Op,
    pub doc: usize,
    pub cfg: Cfg,
    /// editor session: the text of this call is the result of this thread's previous call
    /// (if that returned text), not `docs[doc]`; the Source is then the call's own
    #[serde(default)]
    pub feed_prev: bool,
    /// the call goes through a clone of a `Typstyle` value shared by all threads of the run
    /// (an embedder keeps one configured formatter and clones it per request) instead of a fresh
    /// `Typstyle::new`
    #[serde(default)]
    pub via_clone: bool,
    /// `Op::Inspect` only: the inspector callback itself formats another document
    /// (`format_content(docs[n], cfg)`) before it returns - a call nested inside a call on the same
    /// thread, the one interleaving that threads cannot produce. Both results are compared with
    /// their own single-call references.
    #[serde(default)]
    pub nest: Option<(usize, Cfg)>,
    /// `Source`-taking operations only: the call builds a `Source` of its own and drops it when it
    /// returns (an editor that opens, formats and closes documents), instead of using the run's
    /// shared one: the next such call on the thread is likely to get the same addresses
    #[serde(default)]
    pub own_source: bool,
}

#[derive(Serialize, Deserialize, Clone, Debug, PartialEq, Eq)]
pub enum Policy {
    /// switch with probability p/1000 at every point
    Uniform { p_milli: u32 },
    /// PCT style: random priorities, d priority change points
    Pct { d: u32 },
    /// one thread is frozen mid-call for a long stretch
    Stall { p_milli: u32 },
    /// switch only at call boundaries
    CallAtomic,
    /// explicit: thread chosen at each yield index (recorded from a run, or minimised)
    Explicit(Vec<u8>),
}

/// abandon (unwind) thread `tid`'s `call`-th call at its `point`-th hook point
#[derive(Serialize, Deserialize, Clone, Debug, PartialEq, Eq)]
pub struct Abandon {
    pub tid: usize,
    pub call: usize,
    pub point: u32,
}

#[derive(Serialize, Deserialize, Clone, Debug, PartialEq, Eq)]
pub struct Scenario {
    pub seed: u64,
    pub docs: Vec<String>,
    pub threads: Vec<Vec<Call>>,
    pub policy: Policy,
    pub abandons: Vec<Abandon>,
}

#[derive(Serialize, Deserialize, Clone, Debug, PartialEq, Eq, Hash)]
pub enum Res {
    Ok(String),
    /// inspect: result + digest of the inspected document rendered at width 120
    OkInspect(String, u64),
    RangeOk(usize, usize, String),
    Err,
    Panic,
    Abandoned,
}

#[derive(Serialize, Deserialize, Clone, Debug, PartialEq, Eq)]
pub struct Violation17 {
    /// V17.1-result | V17.2-panic | V17.3-worlds | V17.4-rerun
    pub invariant: String,
    pub tid: usize,
    pub call: usize,
    pub message: String,
}

#[derive(Serialize, Deserialize, Clone, Debug)]
pub struct Replay17 {
    pub engine: String,
    pub property: String,
    pub scenario: Scenario,
    /// seeds of runs executed in the same process before the failing one (state that crossed a
    /// run boundary); empty when the scenario fails alone in a fresh process
    pub prefix_seeds: Vec<u64>,
    pub violation: Violation17,
    pub result_digest: u64,
    pub note: String,
}
