//! Engine B: interleaved callers of the library (C17).
