//! Executes one scenario in this process: K real threads, baton scheduler, abandon faults.

use std::panic::{catch_unwind, AssertUnwindSafe};
use std::sync::Arc;

use typst_syntax::Source;
use typstyle_core::Typstyle;

use super::sched::{AbandonSignal, Decider, Sched, SchedStats};
use super::{Call, Op, Policy, Res, Scenario};

thread_local! {
    /// result of the nested call made by the inspector of the last `exec_call` on this thread
    static LAST_INNER: std::cell::RefCell<Option<Res>> = const { std::cell::RefCell::new(None) };
}

pub fn take_inner() -> Option<Res> {
    LAST_INNER.with(|c| c.borrow_mut().take())
}

pub struct RunOutcome {
    /// results per thread, per call
    pub results: Vec<Vec<Res>>,
    /// results of the calls nested inside inspector callbacks (None where there was none)
    pub inner_results: Vec<Vec<Option<Res>>>,
    /// hook points each call passed (None if it did not complete)
    pub steps: Vec<Vec<Option<u64>>>,
    /// for calls with `feed_prev` that actually were fed: the text they ran on
    pub fed_texts: Vec<Vec<Option<String>>>,
    /// the schedule as executed (explicit form)
    pub decisions: Vec<u8>,
    pub stats: SchedStats,
    pub hung: bool,
}

/// performs one call; this is the only place engine B calls into the library
pub fn exec_call(call: &Call, text: &str, shared_source: Option<&Source>, shared_styler: Option<&Typstyle>) -> Res {
    exec_call_nested(call, text, shared_source, shared_styler, None)
}

pub fn exec_call_nested(call: &Call, text: &str, shared_source: Option<&Source>, shared_styler: Option<&Typstyle>, inner_text: Option<&str>) -> Res {
    LAST_INNER.with(|c| *c.borrow_mut() = None);
    let config = call.cfg.to_config();
    // a fresh formatter, or a clone of the run's shared one for this configuration
    let make = |config: typstyle_core::Config| -> Typstyle {
        match (call.via_clone, shared_styler) {
            (true, Some(s)) => s.clone(),
            _ => Typstyle::new(config),
        }
    };
    match &call.op {
        Op::Content => match make(config).format_content(text) {
            Ok(s) => Res::Ok(s),
            Err(_) => Res::Err,
        },
        Op::Width => Res::Ok(typstyle_core::format_with_width(text, call.cfg.column)),
        Op::Source => {
            let own;
            let src = match shared_source {
                Some(s) => s,
                None => {
                    own = Source::detached(text);
                    &own
                }
            };
            match make(config).format_source(src) {
                Ok(s) => Res::Ok(s),
                Err(_) => Res::Err,
            }
        }
        Op::Inspect => {
            let own;
            let src = match shared_source {
                Some(s) => s,
                None => {
                    own = Source::detached(text);
                    &own
                }
            };
            let mut digest = 0u64;
            match make(config).format_source_inspect(src, |doc| {
                digest = crate::rng::fnv(doc.pretty(120).to_string().as_bytes());
                if let (Some((_, icfg)), Some(itext)) = (&call.nest, inner_text) {
                    // a call nested inside this one, on the same thread
                    let r = catch_unwind(AssertUnwindSafe(|| Typstyle::new(icfg.to_config()).format_content(itext)));
                    let inner = match r {
                        Ok(Ok(s)) => Res::Ok(s),
                        Ok(Err(_)) => Res::Err,
                        Err(p) => {
                            if p.is::<AbandonSignal>() {
                                std::panic::resume_unwind(p); // the simulator abandons the whole request
                            }
                            Res::Panic
                        }
                    };
                    LAST_INNER.with(|c| *c.borrow_mut() = Some(inner));
                }
            }) {
                Ok(s) => Res::OkInspect(s, digest),
                Err(_) => Res::Err,
            }
        }
        Op::Range { start, end } => {
            let own;
            let src = match shared_source {
                Some(s) => s,
                None => {
                    own = Source::detached(text);
                    &own
                }
            };
            let own_styler;
            let styler = match shared_styler {
                Some(s) => s,
                None => {
                    own_styler = Typstyle::new(config);
                    &own_styler
                }
            };
            // keep the range inside the text and on character boundaries (the minimiser shortens
            // documents); the reference process applies the same normalisation
            let t = src.text();
            let floor = |mut i: usize| {
                i = i.min(t.len());
                while !t.is_char_boundary(i) {
                    i -= 1;
                }
                i
            };
            let (start, end) = (floor(*start), floor(*end));
            let end = end.max(start);
            match styler.format_source_range(src, start..end) {
                Ok((r, s)) => Res::RangeOk(r.start, r.end, s),
                Err(_) => Res::Err,
            }
        }
    }
}

fn shares_source(op: &Op) -> bool {
    matches!(op, Op::Source | Op::Inspect | Op::Range { .. })
}

fn reseed_shim(seed: u64) {
    // the interposer's randomness/clock stream restarts from the run seed, so that a leak of
    // e.g. hash order replays exactly from the seed
    unsafe {
        let sym = libc::dlsym(libc::RTLD_DEFAULT, b"vsim_reseed\0".as_ptr() as *const libc::c_char);
        if !sym.is_null() {
            let f: extern "C" fn(u64) = std::mem::transmute(sym);
            f(seed);
        }
    }
}

/// simulated clock for the calling thread on/off (see shim.c: vsim_thread_clock)
pub fn sim_clock(on: bool) {
    use std::sync::OnceLock;
    static F: OnceLock<usize> = OnceLock::new();
    let p = *F.get_or_init(|| unsafe { libc::dlsym(libc::RTLD_DEFAULT, b"vsim_thread_clock\0".as_ptr() as *const libc::c_char) as usize });
    if p != 0 {
        let f: extern "C" fn(i32) = unsafe { std::mem::transmute(p) };
        f(on as i32);
    }
}

pub fn shim_present() -> bool {
    unsafe { !libc::dlsym(libc::RTLD_DEFAULT, b"vsim_reseed\0".as_ptr() as *const libc::c_char).is_null() }
}

pub fn run_scenario(sc: &Scenario) -> RunOutcome {
    reseed_shim(sc.seed);
    let n = sc.threads.len();
    let est: u64 = sc.threads.iter().map(|t| t.len() as u64 * 400).sum::<u64>().max(100);
    let decider = Decider::new(sc.policy.clone(), sc.seed, n, est);
    let sched = Arc::new(Sched::new(n, decider, sc.abandons.clone()));
    // shared objects are created by the coordinating thread before any worker runs
    let docs: Arc<Vec<String>> = Arc::new(sc.docs.clone());
    let sources: Arc<Vec<Source>> = Arc::new(sc.docs.iter().map(|d| Source::detached(d.as_str())).collect());
    // one shared Typstyle per distinct configuration used by range calls
    let mut cfgs: Vec<crate::oracle::Cfg> = Vec::new();
    for t in &sc.threads {
        for c in t {
            if (matches!(c.op, Op::Range { .. }) || c.via_clone) && !cfgs.contains(&c.cfg) {
                cfgs.push(c.cfg);
            }
        }
    }
    let stylers: Arc<Vec<(crate::oracle::Cfg, Typstyle)>> = Arc::new(cfgs.iter().map(|c| (*c, Typstyle::new(c.to_config()))).collect());

    let mut handles = Vec::new();
    for (tid, script) in sc.threads.iter().cloned().enumerate() {
        let (sched, docs, sources, stylers) = (sched.clone(), docs.clone(), sources.clone(), stylers.clone());
        let h = std::thread::Builder::new()
            .name(format!("sim-{}", tid))
            // embedders call from threads of all sizes: a third of the threads get a small stack
            .stack_size(if (sc.seed as usize + tid) % 3 == 0 { 2 << 20 } else { 16 << 20 })
            .spawn(move || {
                let s2 = sched.clone();
                typstyle_core::verif::install(Box::new(move |site| {
                    sim_clock(false);
                    // on an abandon this unwinds; the clock is switched off again after the call
                    s2.point(tid, site);
                    sim_clock(true);
                }));
                sched.wait_start(tid);
                let mut results: Vec<Res> = Vec::new();
                let mut inner_results: Vec<Option<Res>> = Vec::new();
                let mut steps: Vec<Option<u64>> = Vec::new();
                let mut fed_texts: Vec<Option<String>> = Vec::new();
                for (ci, call) in script.iter().enumerate() {
                    let fed: Option<String> = if call.feed_prev {
                        match results.last() {
                            Some(Res::Ok(s)) | Some(Res::OkInspect(s, _)) => Some(s.clone()),
                            _ => None,
                        }
                    } else {
                        None
                    };
                    let shared = shares_source(&call.op) && fed.is_none() && !call.own_source;
                    sched.begin_call(tid, ci, if shared { Some(call.doc) } else { None });
                    let before = typstyle_core::verif::steps();
                    let text = match &fed {
                        Some(t) => t.as_str(),
                        None => docs[call.doc].as_str(),
                    };
                    let src = if shared { Some(&sources[call.doc]) } else { None };
                    let styler = stylers.iter().find(|(c, _)| *c == call.cfg).map(|(_, s)| s);
                    sim_clock(true);
                    let inner_text: Option<&str> = call.nest.as_ref().map(|(d, _)| docs[*d % docs.len()].as_str());
                    let r = catch_unwind(AssertUnwindSafe(|| exec_call_nested(call, text, src, styler, inner_text)));
                    let inner = take_inner();
                    sim_clock(false);
                    let after = typstyle_core::verif::steps();
                    inner_results.push(if r.is_ok() { inner } else { None });
                    match r {
                        Ok(res) => {
                            results.push(res);
                            steps.push(Some(after - before));
                        }
                        Err(p) => {
                            if p.is::<AbandonSignal>() {
                                results.push(Res::Abandoned);
                            } else {
                                results.push(Res::Panic);
                            }
                            steps.push(None);
                        }
                    }
                    fed_texts.push(fed);
                    sched.end_call(tid);
                }
                sched.finish(tid);
                typstyle_core::verif::uninstall();
                (results, steps, fed_texts, inner_results)
            })
            .expect("spawn");
        handles.push(h);
    }
    sched.start();
    let mut results = Vec::new();
    let mut inner_all = Vec::new();
    let mut steps = Vec::new();
    let mut fed_texts = Vec::new();
    let mut hung = false;
    // global watchdog: no thread passed a point for a minute although take-overs are possible
    loop {
        if handles.iter().all(|h| h.is_finished()) {
            break;
        }
        if sched.stalled_for() > std::time::Duration::from_secs(40) {
            hung = true;
            break;
        }
        std::thread::sleep(std::time::Duration::from_micros(200));
    }
    for h in handles {
        if hung && !h.is_finished() {
            // cannot be joined; the process reports the hang and exits
            results.push(Vec::new());
            inner_all.push(Vec::new());
            steps.push(Vec::new());
            fed_texts.push(Vec::new());
            continue;
        }
        match h.join() {
            Ok((r, s, f, inn)) => {
                results.push(r);
                inner_all.push(inn);
                steps.push(s);
                fed_texts.push(f);
            }
            Err(_) => {
                hung = true;
                inner_all.push(Vec::new());
                results.push(Vec::new());
                steps.push(Vec::new());
                fed_texts.push(Vec::new());
            }
        }
    }
    let (decisions, stats) = sched.take_results();
    RunOutcome { results, inner_results: inner_all, steps, fed_texts, decisions, stats, hung }
}

/// the same scenario with the schedule replaced by the explicit decisions of a previous run
pub fn with_explicit(sc: &Scenario, decisions: &[u8]) -> Scenario {
    let mut s = sc.clone();
    s.policy = Policy::Explicit(decisions.to_vec());
    s
}

pub fn results_digest(results: &[Vec<Res>]) -> u64 {
    crate::rng::fnv(serde_json::to_string(results).unwrap_or_default().as_bytes())
}
