//! Seeded generation of engine-B scenarios (DESIGN.md 5.2, 5.3).

use super::{Abandon, Call, Op, Policy, Scenario};
use crate::gen::{self, DocGen};
use crate::oracle::Cfg;
use crate::rng::{mix, Rng};

pub const WIDTHS: &[usize] = &[0, 1, 20, 40, 80, 120, 400];
pub const TABS: &[usize] = &[1, 2, 4, 8];

fn gen_cfg(rng: &mut Rng) -> Cfg {
    Cfg { column: *rng.pick(WIDTHS), tab: *rng.pick(TABS), reorder: rng.chance(0.4), blank: *rng.pick(&[2usize, 2, 2, 0, 1, 3, 5]) }
}

fn char_boundary_floor(s: &str, mut i: usize) -> usize {
    i = i.min(s.len());
    while !s.is_char_boundary(i) {
        i -= 1;
    }
    i
}

fn gen_range(rng: &mut Rng, text: &str) -> (usize, usize) {
    if text.is_empty() {
        return (0, 0);
    }
    let a = char_boundary_floor(text, rng.below(text.len() + 1));
    let len = match rng.below(4) {
        0 => rng.below(8),
        1 => rng.below(60),
        2 => rng.below(text.len() + 1),
        _ => text.len(),
    };
    let b = char_boundary_floor(text, (a + len).min(text.len()));
    (a, b.max(a))
}

pub fn gen_scenario(seed: u64, fixtures: &[String]) -> Scenario {
    let mut rng = Rng::stream(seed, "workload");
    // ---- documents: shape twins have identical tree shape (hence colliding Span numbers) but
    // different attributes (white-space flavour, `@typstyle off` comments)
    let ndocs = rng.range(1, 4);
    let twins = rng.chance(0.55);
    let shape_seed = mix(seed, 1);
    let items = match rng.below(6) {
        0 => 1,
        1..=3 => rng.range(2, 5),
        _ => rng.range(4, 9),
    };
    let mut docs: Vec<String> = Vec::new();
    // deep mode: every document nests 10-40 levels, so that several calls are deep inside the
    // recursive conversion at the same time
    let deep_mode = rng.chance(0.2);
    // long flat mode (rare, expensive): thousands of children directly below the root, escape
    // hatches sprinkled in - whatever splits, batches or samples a long child list shows here
    let flat_mode = !deep_mode && rng.chance(0.012);
    for j in 0..ndocs {
        let d = if flat_mode {
            let lines = rng.range(700, 1400);
            let mut text = String::new();
            let mut g = DocGen::new(mix(seed, 400 + j as u64), mix(seed, 100 + j as u64)).with_loose(0.5);
            for k in 0..lines {
                match rng.below(12) {
                    0 => text.push_str("// @typstyle off\n#let   q  =  (1,2 ,3)\n"),
                    1 => text.push_str("// note\n#let   r  =  (1,2 ,3)\n"),
                    2 => {
                        text.push_str(&g.item());
                        text.push('\n');
                    }
                    3 => text.push_str("some prose here\n\n"),
                    _ => text.push_str(&format!("#let v{} = {}\n", k, k)),
                }
            }
            text
        } else if deep_mode {
            let s = if twins { shape_seed } else { mix(seed, 300 + j as u64) };
            let mut g = DocGen::new(s, mix(seed, 100 + j as u64)).with_loose(0.5);
            let mut text = String::new();
            for k in 0..rng.range(1, 3) {
                let levels = rng.range(10, 40);
                text.push_str(&format!("#let zqdeep{}x{} = {}\n", j, k, g.deep(levels)));
            }
            text
        } else if !fixtures.is_empty() && rng.chance(0.1) {
            rng.pick(fixtures).clone()
        } else if twins {
            DocGen::new(shape_seed, mix(seed, 100 + j as u64)).with_loose(0.6).document(items)
        } else {
            let s = mix(seed, 200 + j as u64);
            let n = rng.range(1, 8);
            DocGen::new(s, s).with_loose(0.5).document(n)
        };
        let d = if rng.chance(0.08) { gen::erroneous_variant(&d, &mut rng) } else { d };
        let d = if rng.chance(0.03) {
            // a document on which the library panics by itself (skipped by the oracle when the
            // fresh-process reference panics too; what matters is every call *after* it)
            format!("{}{}\n", d, DocGen::new(seed, seed).natural_abort())
        } else {
            d
        };
        docs.push(d);
    }
    // same-length twins: another revision of document 0 with exactly as many bytes (a blank
    // turned into a line break, an escape hatch defused) - whatever tells revisions apart by
    // address and length confuses the two
    if ndocs > 1 && !flat_mode && rng.chance(0.3) {
        if let Some(v) = gen::same_length_variant(&docs[0], &mut rng) {
            let j = 1 + rng.below(ndocs - 1);
            docs[j] = v;
        }
    }
    // ---- scripts
    // mostly 1-4 threads; sometimes a crowd (more threads than any small fixed table of
    // per-thread slots), each with a single call
    let crowd = !flat_mode && rng.chance(0.02);
    let nthreads = if crowd { rng.range(9, 12) } else { 1 + rng.weighted(&[1, 5, 3, 2]) };
    let hot_doc = rng.below(ndocs);
    let hot_cfg = gen_cfg(&mut rng);
    let mut threads: Vec<Vec<Call>> = Vec::new();
    for _ in 0..nthreads {
        let ncalls = if flat_mode { rng.range(1, 2) } else if crowd { 1 } else { rng.range(1, 6) };
        let mut script: Vec<Call> = Vec::new();
        while script.len() < ncalls {
            let doc = if rng.chance(0.6) { hot_doc } else { rng.below(ndocs) };
            let cfg = if rng.chance(0.4) { hot_cfg } else { gen_cfg(&mut rng) };
            let op = match rng.weighted(&[4, 4, 2, 2, 1]) {
                0 => Op::Content,
                1 => Op::Source,
                2 => Op::Inspect,
                3 => {
                    let (a, b) = gen_range(&mut rng, &docs[doc]);
                    Op::Range { start: a, end: b }
                }
                _ => Op::Width,
            };
            let nest = if matches!(op, Op::Inspect) && rng.chance(0.6) { Some((rng.below(ndocs), if rng.chance(0.5) { cfg } else { gen_cfg(&mut rng) })) } else { None };
            let own_source = matches!(op, Op::Source | Op::Inspect | Op::Range { .. }) && rng.chance(0.3);
            let call = Call { op, doc, cfg, feed_prev: false, via_clone: rng.chance(0.4), nest, own_source };
            match rng.below(10) {
                // the same operation twice in a row
                0 | 1 => {
                    script.push(call.clone());
                    script.push(call);
                }
                // editor session: format, then format the result again (same or other config)
                5 | 6 if !matches!(call.op, Op::Range { .. }) => {
                    let mut c2 = call.clone();
                    c2.feed_prev = true;
                    if rng.chance(0.6) {
                        c2.cfg = gen_cfg(&mut rng);
                    }
                    if rng.chance(0.3) {
                        c2.op = Op::Content;
                    }
                    script.push(call);
                    script.push(c2);
                }
                // the same text under two configurations back to back
                2 | 3 => {
                    let mut c2 = call.clone();
                    c2.cfg = gen_cfg(&mut rng);
                    script.push(call);
                    script.push(c2);
                }
                // the same call on a twin document
                4 if ndocs > 1 => {
                    let mut c2 = call.clone();
                    c2.doc = (doc + 1) % ndocs;
                    if let Op::Range { .. } = c2.op {
                        let (a, b) = gen_range(&mut rng, &docs[c2.doc]);
                        c2.op = Op::Range { start: a, end: b };
                    }
                    script.push(call);
                    script.push(c2);
                }
                _ => script.push(call),
            }
        }
        threads.push(script);
    }
    // ---- schedule policy
    let policy = match rng.weighted(&[4, 3, 2, 2]) {
        0 => Policy::Uniform { p_milli: *rng.pick(&[20, 50, 100, 200, 500]) },
        1 => Policy::Pct { d: rng.range(1, 3) as u32 },
        2 => Policy::Stall { p_milli: 50 },
        _ => Policy::CallAtomic,
    };
    // ---- abandon faults
    let mut abandons = Vec::new();
    if rng.chance(0.3) {
        for _ in 0..rng.range(1, 2) {
            let tid = rng.below(nthreads);
            let call = rng.below(threads[tid].len());
            let hi = rng.below(400) + 1;
            abandons.push(Abandon { tid, call, point: 1 + rng.below(hi) as u32 });
        }
    }
    Scenario { seed, docs, threads, policy, abandons }
}
