//! Reference results: `f(op, text, config)` obtained from the code itself in the only context
//! where no other call can have influenced it - a fresh process that performs that single call
//! and exits.
//!
//! A reference server is a pristine single-threaded process that never calls the library. For
//! every request it forks; the child performs exactly one call and exits. Two servers run in
//! two "worlds" that differ in everything the result must not depend on (interposed randomness
//! and clock, environment, cwd, ASLR, calling thread, heap history).

use std::io::{BufRead, BufReader, Write};
use std::os::unix::process::CommandExt;
use std::path::Path;
use std::process::{Child, ChildStdin, ChildStdout, Command, Stdio};

use serde::{Deserialize, Serialize};

use super::exec::{exec_call, sim_clock};
use super::{Call, Res};

#[derive(Serialize, Deserialize)]
struct Request {
    call: Call,
    text: String,
    /// perform the call on a thread with a stack of this many KiB (headroom lane)
    #[serde(default)]
    stack_kib: Option<u64>,
}

/// main loop of `coresim refserver <A|B>`
pub fn serve(world_b: bool) -> i32 {
    crate::oracle::silence_panics();
    let stdin = std::io::stdin();
    let mut line = String::new();
    let mut stdout = std::io::stdout();
    loop {
        line.clear();
        match stdin.lock().read_line(&mut line) {
            Ok(0) | Err(_) => return 0,
            Ok(_) => {}
        }
        let Ok(req) = serde_json::from_str::<Request>(&line) else {
            let _ = writeln!(stdout, "\"BadRequest\"");
            let _ = stdout.flush();
            continue;
        };
        let mut fds = [0i32; 2];
        if unsafe { libc::pipe(fds.as_mut_ptr()) } != 0 {
            return 3;
        }
        let pid = unsafe { libc::fork() };
        if pid < 0 {
            return 3;
        }
        if pid == 0 {
            // child: exactly one call, then exit
            unsafe { libc::close(fds[0]) };
            let res = if let Some(kib) = req.stack_kib {
                // the caller's stack is what it is: a thread with exactly this much (a stack
                // overflow kills this child; the server reports that as a crash of the single call)
                std::thread::Builder::new()
                    .name("headroom".into())
                    .stack_size((kib as usize) << 10)
                    .spawn(move || {
                        sim_clock(true);
                        std::panic::catch_unwind(std::panic::AssertUnwindSafe(|| exec_call(&req.call, &req.text, None, None))).unwrap_or(Res::Panic)
                    })
                    .map(|h| h.join().unwrap_or(Res::Panic))
                    .unwrap_or(Res::Panic)
            } else if world_b {
                // another thread, another stack size, some heap history first
                let junk: Vec<Vec<u8>> = (0..64).map(|i| vec![i as u8; 1000 + 37 * i]).collect();
                let r = std::thread::Builder::new()
                    .name("world-b".into())
                    .stack_size(32 << 20)
                    .spawn(move || {
                        sim_clock(true);
                        std::panic::catch_unwind(std::panic::AssertUnwindSafe(|| exec_call(&req.call, &req.text, None, None))).unwrap_or(Res::Panic)
                    })
                    .map(|h| h.join().unwrap_or(Res::Panic))
                    .unwrap_or(Res::Panic);
                drop(junk);
                r
            } else {
                sim_clock(true);
                std::panic::catch_unwind(std::panic::AssertUnwindSafe(|| exec_call(&req.call, &req.text, None, None))).unwrap_or(Res::Panic)
            };
            let s = serde_json::to_string(&res).unwrap_or_else(|_| "\"Panic\"".into());
            let b = s.as_bytes();
            let mut off = 0;
            while off < b.len() {
                let n = unsafe { libc::write(fds[1], b[off..].as_ptr() as *const libc::c_void, b.len() - off) };
                if n <= 0 {
                    break;
                }
                off += n as usize;
            }
            unsafe { libc::_exit(0) };
        }
        unsafe { libc::close(fds[1]) };
        let mut buf = Vec::new();
        let mut chunk = [0u8; 65536];
        loop {
            let n = unsafe { libc::read(fds[0], chunk.as_mut_ptr() as *mut libc::c_void, chunk.len()) };
            if n <= 0 {
                break;
            }
            buf.extend_from_slice(&chunk[..n as usize]);
        }
        unsafe { libc::close(fds[0]) };
        let mut status = 0;
        unsafe { libc::waitpid(pid, &mut status, 0) };
        if buf.is_empty() {
            // the child died without an answer (abort, stack overflow): a crash of that single call
            buf.extend_from_slice(b"\"Panic\"");
        }
        buf.push(b'\n');
        if stdout.write_all(&buf).is_err() || stdout.flush().is_err() {
            return 0;
        }
    }
}

pub struct RefClient {
    child: Child,
    stdin: ChildStdin,
    stdout: BufReader<ChildStdout>,
}

impl RefClient {
    /// `exe` = this binary; `shim` = interposer; world B differs from world A in everything the
    /// result must not depend on
    pub fn spawn(exe: &Path, shim: &Path, world_b: bool, seed: u64) -> std::io::Result<RefClient> {
        let mut cmd = Command::new(exe);
        cmd.arg("refserver").arg(if world_b { "B" } else { "A" });
        cmd.env_clear().env("LD_PRELOAD", shim);
        if world_b {
            cmd.env("VSIM_SEED", (seed ^ 0xB0B0_B0B0).to_string())
                // (another language and script than world A's unset locale; which one varies
                // with the seed, i.e. from worker to worker)
                .env("LANG", ["tr_TR.UTF-8", "zh_CN.UTF-8", "ja_JP.UTF-8", "ko_KR.UTF-8"][(seed % 4) as usize])
                .env("LC_ALL", ["tr_TR.UTF-8", "zh_CN.UTF-8", "ja_JP.UTF-8", "ko_KR.UTF-8"][(seed % 4) as usize])
                .env("LC_CTYPE", ["tr_TR.UTF-8", "zh_CN.UTF-8", "ja_JP.UTF-8", "ko_KR.UTF-8"][(seed % 4) as usize])
                .env("TZ", "Pacific/Chatham")
                .env("HOME", "/nonexistent")
                .env("COLUMNS", "13")
                .env("TYPSTYLE_WIDTH", "7")
                .env("NO_COLOR", "1")
                .env("VSIM_ENVJUNK", "1")
                .env("VSIM_NOTHREADS", "1")
                .env("RUST_BACKTRACE", "full")
                .current_dir("/");
            unsafe {
                cmd.pre_exec(|| {
                    // pin the address-space layout in this world (ASLR stays on in world A)
                    libc::personality(libc::ADDR_NO_RANDOMIZE as libc::c_ulong);
                    // a smaller machine: this world sees two CPUs (world A sees all of them)
                    let mut set: libc::cpu_set_t = std::mem::zeroed();
                    libc::CPU_ZERO(&mut set);
                    libc::CPU_SET(0, &mut set);
                    libc::CPU_SET(1, &mut set);
                    libc::sched_setaffinity(0, std::mem::size_of::<libc::cpu_set_t>(), &set);
                    Ok(())
                });
            }
        } else {
            cmd.env("VSIM_SEED", (seed ^ 0x0A0A_0A0A).to_string());
        }
        cmd.stdin(Stdio::piped()).stdout(Stdio::piped()).stderr(Stdio::null());
        let mut child = cmd.spawn()?;
        let stdin = child.stdin.take().unwrap();
        let stdout = BufReader::new(child.stdout.take().unwrap());
        Ok(RefClient { child, stdin, stdout })
    }

    pub fn query(&mut self, call: &Call, text: &str) -> std::io::Result<Res> {
        self.query_on_stack(call, text, None)
    }

    pub fn query_on_stack(&mut self, call: &Call, text: &str, stack_kib: Option<u64>) -> std::io::Result<Res> {
        let req = Request { call: call.clone(), text: text.to_string(), stack_kib };
        let mut s = serde_json::to_string(&req).unwrap();
        s.push('\n');
        self.stdin.write_all(s.as_bytes())?;
        self.stdin.flush()?;
        let mut line = String::new();
        self.stdout.read_line(&mut line)?;
        serde_json::from_str::<Res>(line.trim_end()).map_err(|e| std::io::Error::new(std::io::ErrorKind::InvalidData, format!("bad reference answer: {e}: {:?}", crate::util::excerpt(line.as_bytes(), 80))))
    }
}

impl Drop for RefClient {
    fn drop(&mut self) {
        let _ = self.child.kill();
        let _ = self.child.wait();
    }
}
