//! Result checking against references (V17.1-V17.3) and minimisation of failing scenarios.

use std::collections::BTreeMap;
use std::io::Write;
use std::path::{Path, PathBuf};
use std::process::{Command, Stdio};

use serde::{Deserialize, Serialize};

use super::exec::RunOutcome;
use super::refproc::RefClient;
use super::{Call, Policy, Res, Scenario, Violation17};
use crate::rng::fnv;

pub struct Checker {
    a: RefClient,
    b: RefClient,
    cache: BTreeMap<(u64, usize), (Res, Res)>,
    pub refs_computed: u64,
    pub ref_panics: u64,
    pub compared: u64,
    pub skipped_abandoned: u64,
    pub skipped_ref_panic: u64,
    /// nested calls (or calls with a nested call) that panicked: a non-re-entrant library, observed
    pub nested_panics: u64,
}

impl Checker {
    pub fn new(exe: &Path, shim: &Path, seed: u64) -> std::io::Result<Checker> {
        Ok(Checker {
            a: RefClient::spawn(exe, shim, false, seed)?,
            b: RefClient::spawn(exe, shim, true, seed)?,
            cache: BTreeMap::new(),
            refs_computed: 0,
            ref_panics: 0,
            compared: 0,
            skipped_abandoned: 0,
            skipped_ref_panic: 0,
            nested_panics: 0,
        })
    }

    pub fn reference(&mut self, call: &Call, text: &str) -> std::io::Result<(Res, Res)> {
        let key = (fnv(format!("{}\u{0}{}", serde_json::to_string(call).unwrap(), text).as_bytes()), text.len());
        if let Some(r) = self.cache.get(&key) {
            return Ok(r.clone());
        }
        let ra = self.a.query(call, text)?;
        let rb = self.b.query(call, text)?;
        self.refs_computed += 2;
        if ra == Res::Panic {
            self.ref_panics += 1;
        }
        if self.cache.len() > 50_000 {
            self.cache.clear();
        }
        self.cache.insert(key, (ra.clone(), rb.clone()));
        Ok((ra, rb))
    }

    pub fn check(&mut self, sc: &Scenario, out: &RunOutcome) -> std::io::Result<Vec<Violation17>> {
        let mut v = Vec::new();
        for (tid, script) in sc.threads.iter().enumerate() {
            for (ci, call) in script.iter().enumerate() {
                let Some(res) = out.results.get(tid).and_then(|r| r.get(ci)) else { continue };
                if *res == Res::Abandoned {
                    self.skipped_abandoned += 1;
                    continue;
                }
                // the text the call really ran on (an editor-session call runs on the previous result)
                let fed = out.fed_texts.get(tid).and_then(|f| f.get(ci)).cloned().flatten();
                let text: &str = match &fed {
                    Some(t) => t.as_str(),
                    None => sc.docs[call.doc].as_str(),
                };
                let mut call_key = call.clone();
                call_key.feed_prev = false;
                call_key.via_clone = false; // the reference is always a fresh formatter in a fresh process
                call_key.nest = None; // ... and makes no nested call: the outer result must not depend on one
                call_key.own_source = false; // (no shared Source exists in the reference process anyway)
                let call = &call_key;
                let (ra, rb) = self.reference(call, text)?;
                if ra != rb {
                    v.push(Violation17 {
                        invariant: "V17.3-worlds".into(),
                        tid,
                        call: ci,
                        message: format!("the same single call {:?} on doc {} gives different results in two fresh processes (world A vs world B): {}", call.op, call.doc, diff_msg(&ra, &rb)),
                    });
                    continue;
                }
                if ra == Res::Panic {
                    // the call panics on its own: C05's business, not interference
                    self.skipped_ref_panic += 1;
                    continue;
                }
                self.compared += 1;
                if *res == Res::Panic && script[ci].nest.is_some() {
                    // A call whose inspector makes a nested call: a library that is not re-entrant
                    // (a lock or a RefCell held across the callback) panics or blocks here. Whether
                    // re-entrancy is owed is not for C17 to say - only *results* of nested calls
                    // are judged, a panic is an observation.
                    self.nested_panics += 1;
                } else if *res == Res::Panic {
                    v.push(Violation17 {
                        invariant: "V17.2-panic".into(),
                        tid,
                        call: ci,
                        message: format!("call {:?} on doc {} with {:?} panicked in the shared process although the same call alone in a fresh process returns normally", call.op, call.doc, call.cfg),
                    });
                } else if *res != ra {
                    v.push(Violation17 {
                        invariant: "V17.1-result".into(),
                        tid,
                        call: ci,
                        message: format!("call {:?} on doc {} with {:?} (thread {}, call #{}) differs from the same call alone in a fresh process: {}", call.op, call.doc, call.cfg, tid, ci, diff_msg(res, &ra)),
                    });
                }
                // the call nested inside this one's inspector, against its own single-call reference
                if let (Some((idoc, icfg)), Some(Some(inner))) = (&script[ci].nest, out.inner_results.get(tid).and_then(|r| r.get(ci))) {
                    let icall = Call { op: super::Op::Content, doc: *idoc % sc.docs.len(), cfg: *icfg, feed_prev: false, via_clone: false, nest: None, own_source: false };
                    let itext = sc.docs[icall.doc].as_str();
                    let (ia, ib) = self.reference(&icall, itext)?;
                    if ia == ib && ia != Res::Panic {
                        self.compared += 1;
                        if *inner == Res::Panic {
                            self.nested_panics += 1; // (an observation, see above)
                        } else if *inner != ia {
                            v.push(Violation17 { invariant: "V17.1-result".into(), tid, call: ci, message: format!("format_content on doc {} with {:?}, called from inside the inspector callback of another call on the same thread, differs from the same call alone in a fresh process: {}", icall.doc, icfg, diff_msg(inner, &ia)) });
                        }
                    }
                }
            }
        }
        Ok(v)
    }
}

fn res_text(r: &Res) -> String {
    match r {
        Res::Ok(s) => s.clone(),
        Res::OkInspect(s, d) => format!("{}\n[inspected doc digest {:x}]", s, d),
        Res::RangeOk(a, b, s) => format!("[{}..{}] {}", a, b, s),
        Res::Err => "<Err(SyntaxError)>".into(),
        Res::Panic => "<panic>".into(),
        Res::Abandoned => "<abandoned>".into(),
    }
}

pub fn diff_msg(have: &Res, want: &Res) -> String {
    let (h, w) = (res_text(have), res_text(want));
    let d = crate::util::first_diff(h.as_bytes(), w.as_bytes());
    let lo = d.saturating_sub(20);
    let mut lo_h = lo.min(h.len());
    while !h.is_char_boundary(lo_h) {
        lo_h -= 1;
    }
    let mut lo_w = lo.min(w.len());
    while !w.is_char_boundary(lo_w) {
        lo_w -= 1;
    }
    format!(
        "first difference at byte {} (have {:?}, reference {:?})",
        d,
        crate::util::excerpt(h[lo_h..].as_bytes(), 70),
        crate::util::excerpt(w[lo_w..].as_bytes(), 70)
    )
}

/// what `coresim exec` reads on stdin
#[derive(Serialize, Deserialize, Clone, Debug)]
pub struct ExecRequest {
    pub scenario: Scenario,
    pub prefix_seeds: Vec<u64>,
}

/// what `coresim exec` prints
#[derive(Serialize, Deserialize, Clone, Debug)]
pub struct ExecAnswer {
    pub violations: Vec<Violation17>,
    pub result_digest: u64,
    pub log_digest: u64,
    pub decisions: Vec<u8>,
    pub hung: bool,
    pub takeovers: u64,
}

pub struct FreshExec {
    pub exe: PathBuf,
    pub shim: PathBuf,
    pub runs: usize,
}

impl FreshExec {
    /// run scenario (after the prefix) in a fresh process under the interposer
    pub fn exec(&mut self, req: &ExecRequest) -> Option<ExecAnswer> {
        self.runs += 1;
        let mut child = Command::new(&self.exe)
            .arg("exec")
            .env("LD_PRELOAD", &self.shim)
            .env("VSIM_SEED", "1")
            .env("VSIM_SHIM", &self.shim)
            .stdin(Stdio::piped())
            .stdout(Stdio::piped())
            .stderr(Stdio::null())
            .spawn()
            .ok()?;
        {
            let mut si = child.stdin.take()?;
            si.write_all(serde_json::to_string(req).ok()?.as_bytes()).ok()?;
        }
        let out = child.wait_with_output().ok()?;
        serde_json::from_slice::<ExecAnswer>(&out.stdout).ok()
    }
}

pub struct Shrinker17<'a> {
    pub fx: &'a mut FreshExec,
    pub invariant: String,
    pub budget: usize,
}

impl<'a> Shrinker17<'a> {
    fn fails(&mut self, sc: &Scenario, prefix: &[u64]) -> Option<ExecAnswer> {
        if self.fx.runs >= self.budget {
            return None;
        }
        let a = self.fx.exec(&ExecRequest { scenario: sc.clone(), prefix_seeds: prefix.to_vec() })?;
        if a.violations.iter().any(|v| v.invariant == self.invariant) {
            Some(a)
        } else {
            None
        }
    }

    /// returns (scenario, prefix) - the smallest found that still violates the same invariant
    pub fn shrink(&mut self, sc: &Scenario, full_prefix: &[u64]) -> Option<(Scenario, Vec<u64>, ExecAnswer)> {
        // 0. how much of the worker's history is needed? alone first, then growing suffixes
        let mut prefix: Vec<u64> = Vec::new();
        let mut ans = self.fails(sc, &prefix);
        if ans.is_none() {
            let mut k = 1;
            loop {
                let start = full_prefix.len().saturating_sub(k);
                prefix = full_prefix[start..].to_vec();
                ans = self.fails(sc, &prefix);
                if ans.is_some() || start == 0 {
                    break;
                }
                k *= 4;
            }
        }
        let mut ans = ans?;
        let mut cur = sc.clone();
        // shorten the prefix from the front
        while prefix.len() > 1 {
            let half = prefix[prefix.len() / 2..].to_vec();
            if let Some(a) = self.fails(&cur, &half) {
                prefix = half;
                ans = a;
            } else {
                break;
            }
        }
        let mut progress = true;
        while progress && self.fx.runs < self.budget {
            progress = false;
            // 1. drop abandons
            let mut i = 0;
            while i < cur.abandons.len() {
                let mut c = cur.clone();
                c.abandons.remove(i);
                if let Some(a) = self.fails(&c, &prefix) {
                    cur = c;
                    ans = a;
                    progress = true;
                } else {
                    i += 1;
                }
            }
            // 2. drop calls (from the end of each script first)
            for t in 0..cur.threads.len() {
                let mut ci = cur.threads[t].len();
                while ci > 0 {
                    ci -= 1;
                    if cur.threads.iter().map(|s| s.len()).sum::<usize>() <= 1 {
                        break;
                    }
                    let mut c = cur.clone();
                    c.threads[t].remove(ci);
                    c.abandons.retain(|a| !(a.tid == t && a.call == ci));
                    for a in c.abandons.iter_mut() {
                        if a.tid == t && a.call > ci {
                            a.call -= 1;
                        }
                    }
                    if let Some(a) = self.fails(&c, &prefix) {
                        cur = c;
                        ans = a;
                        progress = true;
                    }
                }
            }
            // 3. shorten documents line-wise
            for d in 0..cur.docs.len() {
                let lines: Vec<String> = cur.docs[d].split_inclusive('\n').map(|s| s.to_string()).collect();
                let mut best = lines.clone();
                let mut chunk = (best.len() / 2).max(1);
                loop {
                    let mut i = 0;
                    let mut any = false;
                    while i < best.len() && best.len() > 1 && self.fx.runs < self.budget {
                        let mut cand = best.clone();
                        let end = (i + chunk).min(cand.len());
                        cand.drain(i..end);
                        let mut c = cur.clone();
                        c.docs[d] = cand.concat();
                        if let Some(a) = self.fails(&c, &prefix) {
                            best = cand;
                            cur = c;
                            ans = a;
                            any = true;
                            progress = true;
                        } else {
                            i += chunk;
                        }
                    }
                    if chunk == 1 && !any {
                        break;
                    }
                    if chunk > 1 {
                        chunk /= 2;
                    }
                    if self.fx.runs >= self.budget {
                        break;
                    }
                }
            }
        }
        // 4. explicit schedule, then collapse context switches ("continue the current thread")
        let mut explicit = cur.clone();
        explicit.policy = Policy::Explicit(ans.decisions.clone());
        if let Some(a) = self.fails(&explicit, &prefix) {
            cur = explicit;
            ans = a;
            let Policy::Explicit(mut dec) = cur.policy.clone() else { unreachable!() };
            // positions where the chosen thread changes
            let mut chunk = 64usize;
            while chunk >= 1 && self.fx.runs < self.budget {
                let switches: Vec<usize> = (1..dec.len()).filter(|i| dec[*i] != dec[*i - 1]).collect();
                let mut i = 0;
                let mut any = false;
                while i < switches.len() && self.fx.runs < self.budget {
                    let mut cand = dec.clone();
                    for &p in &switches[i..(i + chunk).min(switches.len())] {
                        // continue with whoever ran before this switch, until the next switch
                        let prev = cand[p - 1];
                        let mut q = p;
                        let old = cand[p];
                        while q < cand.len() && cand[q] == old {
                            cand[q] = prev;
                            q += 1;
                        }
                    }
                    let mut c = cur.clone();
                    c.policy = Policy::Explicit(cand.clone());
                    if let Some(a) = self.fails(&c, &prefix) {
                        dec = cand;
                        cur = c;
                        ans = a;
                        any = true;
                        break; // switch positions changed: recompute
                    }
                    i += chunk;
                }
                if !any {
                    if chunk == 1 {
                        break;
                    }
                    chunk /= 2;
                }
            }
            // trailing decisions that equal "continue" can be dropped
            if let Policy::Explicit(d) = &mut cur.policy {
                while d.len() > 1 && d[d.len() - 1] == d[d.len() - 2] {
                    d.pop();
                }
            }
            if let Some(a) = self.fails(&cur, &prefix) {
                ans = a;
            } else {
                cur.policy = Policy::Explicit(dec);
            }
        }
        Some((cur, prefix, ans))
    }
}
