fn main() {}
