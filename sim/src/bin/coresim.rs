//! Engine B driver (C17).
//!
//!   coresim run --tier quick|thorough [--runs N] [--workers W] [--max-seconds S]
//!   coresim replay <file>
//!   coresim selftest
//!   (internal) coresim worker ... | refserver A|B | exec
//!
//! Exit: 0 held, 1 violation, 2 harness error.

use std::collections::{BTreeMap, BTreeSet};
use std::io::{BufRead, BufReader, Read};
use std::path::{Path, PathBuf};
use std::process::{Command, Stdio};
use std::time::Instant;

use serde::{Deserialize, Serialize};
use serde_json::json;
use vsim::coresim::exec::{results_digest, run_scenario, shim_present, with_explicit};
use vsim::coresim::refproc;
use vsim::coresim::shrink::{Checker, ExecAnswer, ExecRequest, FreshExec, Shrinker17};
use vsim::coresim::workload::gen_scenario;
use vsim::coresim::{Op, Policy, Replay17, Scenario, Violation17};
use vsim::rng::mix;

const DEFAULT_SEED: u64 = 20260926;

fn arg_value(args: &[String], name: &str) -> Option<String> {
    args.iter().position(|a| a == name).and_then(|i| args.get(i + 1).cloned())
}

fn verif_dir() -> PathBuf {
    PathBuf::from(std::env::var("VERIF_DIR").unwrap_or_else(|_| "/verif".into()))
}

fn shim_path() -> PathBuf {
    std::env::var("VSIM_SHIM").map(PathBuf::from).unwrap_or_else(|_| verif_dir().join(".target/shim.so"))
}

fn load_fixtures() -> Vec<String> {
    let root = std::env::var("VSIM_FIXTURES").unwrap_or_else(|_| "/repo/tests/fixtures".into());
    let mut files: Vec<PathBuf> = Vec::new();
    fn rec(p: &Path, out: &mut Vec<PathBuf>) {
        let Ok(rd) = std::fs::read_dir(p) else { return };
        for e in rd.flatten() {
            let path = e.path();
            if path.is_dir() {
                rec(&path, out);
            } else if path.extension().map(|x| x == "typ").unwrap_or(false) {
                out.push(path);
            }
        }
    }
    rec(Path::new(&root), &mut files);
    files.sort();
    files.into_iter().filter_map(|f| std::fs::read_to_string(f).ok()).filter(|s| !s.is_empty() && s.len() <= 2500).collect()
}

#[derive(Serialize, Deserialize, Default, Clone, Debug)]
struct WorkerStats {
    runs: u64,
    calls: u64,
    calls_compared: u64,
    yields: u64,
    switches: u64,
    switches_inside_call: u64,
    abandons_planned: u64,
    abandons_fired: u64,
    calls_completed_after_an_abandon: u64,
    takeovers: u64,
    same_source_overlap_yields: u64,
    runs_with_same_source_overlap: u64,
    runs_with_twins: u64,
    back_to_back_same_text_other_config: u64,
    back_to_back_identical: u64,
    max_concurrent_in_call: usize,
    refs_computed: u64,
    ref_panics: u64,
    skipped_ref_panic: u64,
    rerun_checked: u64,
    rerun_log_mismatch: u64,
    #[serde(default)]
    hangs_in_runs_with_nested_calls: u64,
    step_count_differs_from_solo: u64,
    policies: BTreeMap<String, u64>,
    ops: BTreeMap<String, u64>,
    threads_hist: BTreeMap<String, u64>,
    interleavings: BTreeSet<u64>,
    nontrivial: BTreeSet<u64>,
    errors: Vec<String>,
}

impl WorkerStats {
    fn merge(&mut self, o: WorkerStats) {
        self.runs += o.runs;
        self.calls += o.calls;
        self.calls_compared += o.calls_compared;
        self.yields += o.yields;
        self.switches += o.switches;
        self.switches_inside_call += o.switches_inside_call;
        self.abandons_planned += o.abandons_planned;
        self.abandons_fired += o.abandons_fired;
        self.calls_completed_after_an_abandon += o.calls_completed_after_an_abandon;
        self.takeovers += o.takeovers;
        self.same_source_overlap_yields += o.same_source_overlap_yields;
        self.runs_with_same_source_overlap += o.runs_with_same_source_overlap;
        self.runs_with_twins += o.runs_with_twins;
        self.back_to_back_same_text_other_config += o.back_to_back_same_text_other_config;
        self.back_to_back_identical += o.back_to_back_identical;
        self.max_concurrent_in_call = self.max_concurrent_in_call.max(o.max_concurrent_in_call);
        self.refs_computed += o.refs_computed;
        self.ref_panics += o.ref_panics;
        self.skipped_ref_panic += o.skipped_ref_panic;
        self.rerun_checked += o.rerun_checked;
        self.hangs_in_runs_with_nested_calls += o.hangs_in_runs_with_nested_calls;
        self.rerun_log_mismatch += o.rerun_log_mismatch;
        self.step_count_differs_from_solo += o.step_count_differs_from_solo;
        for (k, v) in o.policies {
            *self.policies.entry(k).or_default() += v;
        }
        for (k, v) in o.ops {
            *self.ops.entry(k).or_default() += v;
        }
        for (k, v) in o.threads_hist {
            *self.threads_hist.entry(k).or_default() += v;
        }
        self.interleavings.extend(o.interleavings);
        self.nontrivial.extend(o.nontrivial);
        self.errors.extend(o.errors);
    }
}

#[derive(Serialize, Deserialize, Clone, Debug)]
struct FoundMsg {
    index: u64,
    scenario: Scenario,
    violation: Violation17,
    prefix_seeds: Vec<u64>,
}

#[derive(Serialize, Deserialize, Clone, Debug)]
enum WorkerMsg {
    Found(FoundMsg),
    Stats(WorkerStats),
    Sample(serde_json::Value),
}

fn policy_name(p: &Policy) -> String {
    match p {
        Policy::Uniform { p_milli } => format!("uniform(p={})", *p_milli as f64 / 1000.0),
        Policy::Pct { d } => format!("pct(d={})", d),
        Policy::Stall { .. } => "stall".into(),
        Policy::CallAtomic => "call-atomic".into(),
        Policy::Explicit(_) => "explicit".into(),
    }
}

fn op_name(o: &Op) -> &'static str {
    match o {
        Op::Content => "format_content",
        Op::Source => "format_source(shared)",
        Op::Inspect => "format_source_inspect(shared)",
        Op::Range { .. } => "format_source_range(shared,shared styler)",
        Op::Width => "format_with_width",
    }
}

fn sample_json(sc: &Scenario) -> serde_json::Value {
    json!({
        "seed": sc.seed,
        "docs": sc.docs.iter().map(|d| vsim::util::excerpt(d.as_bytes(), 120)).collect::<Vec<_>>(),
        "threads": sc.threads.iter().map(|t| t.iter().map(|c| format!("{}({}, w={}, tab={}, reorder={}, blank={}{})", op_name(&c.op), if c.feed_prev { "result of the previous call".to_string() } else { format!("doc {}", c.doc) }, c.cfg.column, c.cfg.tab, c.cfg.reorder, c.cfg.blank, if c.via_clone { ", via clone of the shared Typstyle" } else { "" })).collect::<Vec<_>>()).collect::<Vec<_>>(),
        "policy": policy_name(&sc.policy),
        "abandons": sc.abandons.iter().map(|a| format!("thread {} call {} at its point {}", a.tid, a.call, a.point)).collect::<Vec<_>>(),
    })
}

fn cmd_worker(args: &[String]) -> i32 {
    vsim::oracle::silence_panics();
    let base: u64 = arg_value(args, "--base-seed").and_then(|x| x.parse().ok()).unwrap_or(DEFAULT_SEED);
    let from: u64 = arg_value(args, "--from").and_then(|x| x.parse().ok()).unwrap_or(0);
    let step: u64 = arg_value(args, "--step").and_then(|x| x.parse().ok()).unwrap_or(1);
    let count: u64 = arg_value(args, "--count").and_then(|x| x.parse().ok()).unwrap_or(10);
    let max_secs: u64 = arg_value(args, "--max-seconds").and_then(|x| x.parse().ok()).unwrap_or(60);
    if !shim_present() {
        eprintln!("worker: the interposer is not loaded");
        return 2;
    }
    let exe = std::env::current_exe().unwrap();
    // (the reference worlds of different workers differ in their interposed randomness and in
    // world B's locale)
    let mut checker = match Checker::new(&exe, &shim_path(), base.wrapping_add(from)) {
        Ok(c) => c,
        Err(e) => {
            eprintln!("worker: cannot start reference servers: {e}");
            return 2;
        }
    };
    let fixtures = load_fixtures();
    let start = Instant::now();
    let mut st = WorkerStats::default();
    let mut prefix: Vec<u64> = Vec::new();
    let mut found = 0;
    for j in 0..count {
        if start.elapsed().as_secs() >= max_secs || found >= 6 {
            break;
        }
        let i = from + j * step;
        let seed = mix(base, i);
        let sc = gen_scenario(seed, &fixtures);
        let out = run_scenario(&sc);
        if out.hung && sc.threads.iter().flatten().any(|c| c.nest.is_some()) {
            // a run with a call nested inside an inspector callback: a library that holds a
            // non-re-entrant lock across the callback blocks itself there. Whether re-entrancy is
            // owed is not for C17 to say: no verdict (the process is beyond repair all the same).
            st.hangs_in_runs_with_nested_calls += 1;
            break;
        }
        if out.hung {
            // Nobody passes a scheduling point any more although every waiting thread has been
            // offered the baton (take-overs): the calls themselves wait for something that will
            // never come - e.g. a slot or a lock that an earlier, abandoned call took with it.
            // That is state left behind by a call, observed by another: a verdict, not a harness
            // problem. (This process is beyond repair; the worker ends here.)
            println!(
                "{}",
                serde_json::to_string(&WorkerMsg::Found(FoundMsg {
                    index: i,
                    scenario: with_explicit(&sc, &out.decisions),
                    violation: Violation17 { invariant: "V17.9-hang".into(), tid: 0, call: 0, message: hang_message() },
                    prefix_seeds: prefix.clone(),
                }))
                .unwrap()
            );
            break;
        }
        // ---- statistics and reach probes
        st.runs += 1;
        let ncalls: usize = sc.threads.iter().map(|t| t.len()).sum();
        st.calls += ncalls as u64;
        st.yields += out.stats.yields;
        st.switches += out.stats.switches;
        st.switches_inside_call += out.stats.switches_inside_call;
        st.abandons_planned += sc.abandons.len() as u64;
        st.abandons_fired += out.stats.abandons_fired;
        st.takeovers += out.stats.takeovers;
        st.same_source_overlap_yields += out.stats.same_source_overlap;
        if out.stats.same_source_overlap > 0 {
            st.runs_with_same_source_overlap += 1;
        }
        st.max_concurrent_in_call = st.max_concurrent_in_call.max(out.stats.max_concurrent_in_call);
        *st.policies.entry(policy_name(&sc.policy)).or_default() += 1;
        *st.threads_hist.entry(sc.threads.len().to_string()).or_default() += 1;
        for t in &sc.threads {
            for (k, c) in t.iter().enumerate() {
                *st.ops.entry(op_name(&c.op).to_string()).or_default() += 1;
                if c.nest.is_some() {
                    *st.ops.entry("format_content nested inside an inspector callback (same thread)".to_string()).or_default() += 1;
                }
                if k > 0 {
                    if t[k - 1] == *c {
                        st.back_to_back_identical += 1;
                    } else if t[k - 1].doc == c.doc && t[k - 1].op == c.op && t[k - 1].cfg != c.cfg {
                        st.back_to_back_same_text_other_config += 1;
                    }
                }
            }
        }
        if out.stats.abandons_fired > 0 {
            // calls that completed after an abandoned one (any thread)
            for r in &out.results {
                let mut seen = false;
                for x in r {
                    if *x == vsim::coresim::Res::Abandoned {
                        seen = true;
                    } else if seen {
                        st.calls_completed_after_an_abandon += 1;
                    }
                }
            }
        }
        if sc.docs.len() > 1 && sc.docs.iter().all(|d| d.lines().count() == sc.docs[0].lines().count() || true) {
            // twins are generated from one shape seed; detect by equal marker prefix
            let pref = |d: &str| vsim::clisim::model::markers_in(d).first().map(|m| m.split('x').next().unwrap_or("").to_string());
            let p0 = pref(&sc.docs[0]);
            if p0.is_some() && sc.docs[1..].iter().any(|d| pref(d) == p0 && *d != sc.docs[0]) {
                st.runs_with_twins += 1;
            }
        }
        st.interleavings.insert(out.stats.switch_digest ^ seed.rotate_left(7));
        if ncalls >= 2 && out.stats.switches_inside_call > 0 {
            st.nontrivial.insert(seed);
        }
        if j < 2 && from == 0 {
            println!("{}", serde_json::to_string(&WorkerMsg::Sample(sample_json(&sc))).unwrap());
        }
        // ---- verdict
        let viols = match checker.check(&sc, &out) {
            Ok(v) => v,
            Err(e) => {
                st.errors.push(format!("seed {}: reference server: {}", seed, e));
                break;
            }
        };
        if let Some(v) = viols.into_iter().next() {
            found += 1;
            let explicit = with_explicit(&sc, &out.decisions);
            println!("{}", serde_json::to_string(&WorkerMsg::Found(FoundMsg { index: i, scenario: explicit, violation: v, prefix_seeds: prefix.clone() })).unwrap());
        } else if j % 40 == 3 {
            // V17.4 + harness determinism: the same seed again, later in the same process
            let out2 = run_scenario(&sc);
            st.rerun_checked += 1;
            // Abandon faults are placed by counting hook points. A library that legitimately
            // passes fewer points the second time (a memo of pure results) is then abandoned
            // elsewhere or not at all, and an editor-session call is fed another text: the two
            // executions are not the same experiment any more - no verdict, only an observation.
            let abandoned = |o: &vsim::coresim::exec::RunOutcome| -> Vec<Vec<bool>> { o.results.iter().map(|r| r.iter().map(|x| *x == vsim::coresim::Res::Abandoned).collect()).collect() };
            if abandoned(&out) != abandoned(&out2) {
                st.step_count_differs_from_solo += 1;
            } else if results_digest(&out2.results) != results_digest(&out.results) {
                found += 1;
                println!(
                    "{}",
                    serde_json::to_string(&WorkerMsg::Found(FoundMsg {
                        index: i,
                        scenario: with_explicit(&sc, &out.decisions),
                        violation: Violation17 { invariant: "V17.4-rerun".into(), tid: 0, call: 0, message: "two executions of the same seed in one process returned different results".into() },
                        prefix_seeds: prefix.clone(),
                    }))
                    .unwrap()
                );
            } else if out2.stats.log_digest != out.stats.log_digest {
                st.rerun_log_mismatch += 1;
            }
            // the replay of a later failure has to repeat this second execution too
            prefix.push(seed);
            // observation (not a verdict): does a call pass the same number of points as alone?
            for (a, b) in out.steps.iter().flatten().zip(out2.steps.iter().flatten()) {
                if a != b {
                    st.step_count_differs_from_solo += 1;
                }
            }
        }
        prefix.push(seed);
    }
    st.calls_compared = checker.compared;
    st.refs_computed = checker.refs_computed;
    st.ref_panics = checker.ref_panics;
    st.skipped_ref_panic = checker.skipped_ref_panic;
    println!("{}", serde_json::to_string(&WorkerMsg::Stats(st)).unwrap());
    0
}

fn hang_message() -> String {
    "no thread passes a scheduling point any more although every thread that is not finished was free to run: calls wait for something that never comes (a slot, a lock or a flag that an earlier - possibly abandoned - call left behind)".to_string()
}

fn cmd_exec() -> i32 {
    vsim::oracle::silence_panics();
    let mut s = String::new();
    if std::io::stdin().read_to_string(&mut s).is_err() {
        return 2;
    }
    let Ok(req) = serde_json::from_str::<ExecRequest>(&s) else { return 2 };
    let fixtures = load_fixtures();
    for seed in &req.prefix_seeds {
        let sc = gen_scenario(*seed, &fixtures);
        let _ = run_scenario(&sc);
    }
    let out = run_scenario(&req.scenario);
    let exe = std::env::current_exe().unwrap();
    let mut violations = Vec::new();
    if !out.hung {
        match Checker::new(&exe, &shim_path(), 1).and_then(|mut c| c.check(&req.scenario, &out)) {
            Ok(v) => violations = v,
            Err(_) => return 2,
        }
    } else if !req.scenario.threads.iter().flatten().any(|c| c.nest.is_some()) {
        violations.push(Violation17 { invariant: "V17.9-hang".into(), tid: 0, call: 0, message: hang_message() });
    }
    let ans = ExecAnswer {
        violations,
        result_digest: results_digest(&out.results),
        log_digest: out.stats.log_digest,
        decisions: out.decisions.clone(),
        hung: out.hung,
        takeovers: out.stats.takeovers,
    };
    println!("{}", serde_json::to_string(&ans).unwrap());
    0
}

fn spawn_worker(exe: &Path, shim: &Path, base: u64, from: u64, step: u64, count: u64, max_secs: u64) -> std::io::Result<std::process::Child> {
    Command::new(exe)
        .args(["worker", "--base-seed", &base.to_string(), "--from", &from.to_string(), "--step", &step.to_string(), "--count", &count.to_string(), "--max-seconds", &max_secs.to_string()])
        .env("LD_PRELOAD", shim)
        .env("VSIM_SEED", base.to_string())
        .env("VSIM_SHIM", shim)
        .stdin(Stdio::null())
        .stdout(Stdio::piped())
        .stderr(Stdio::inherit())
        .spawn()
}

struct Batch {
    stats: WorkerStats,
    found: Vec<FoundMsg>,
    samples: Vec<serde_json::Value>,
    worker_failures: Vec<String>,
}

fn run_batch(base: u64, runs: u64, workers: u64, max_secs: u64) -> Batch {
    let exe = std::env::current_exe().unwrap();
    let shim = shim_path();
    let per = runs.div_ceil(workers);
    let mut children = Vec::new();
    for w in 0..workers {
        match spawn_worker(&exe, &shim, base, w, workers, per, max_secs) {
            Ok(c) => children.push((w, c)),
            Err(e) => eprintln!("cannot spawn worker {w}: {e}"),
        }
    }
    let mut b = Batch { stats: WorkerStats::default(), found: vec![], samples: vec![], worker_failures: vec![] };
    // read all workers concurrently
    let mut readers = Vec::new();
    for (w, mut c) in children {
        let out = c.stdout.take().unwrap();
        readers.push(std::thread::spawn(move || {
            let mut msgs = Vec::new();
            for line in BufReader::new(out).lines().map_while(Result::ok) {
                if let Ok(m) = serde_json::from_str::<WorkerMsg>(&line) {
                    msgs.push(m);
                }
            }
            let status = c.wait().ok();
            (w, msgs, status)
        }));
    }
    for r in readers {
        let Ok((w, msgs, status)) = r.join() else { continue };
        let mut got_stats = false;
        for m in msgs {
            match m {
                WorkerMsg::Found(f) => b.found.push(f),
                WorkerMsg::Stats(s) => {
                    got_stats = true;
                    b.stats.merge(s)
                }
                WorkerMsg::Sample(s) => b.samples.push(s),
            }
        }
        if !got_stats || status.map(|s| !s.success()).unwrap_or(true) {
            b.worker_failures.push(format!("worker {} ended abnormally ({:?})", w, status));
        }
    }
    b
}



// ------------------------------------------------------------------ lane B2-cli: separate CLI processes
// "calls in separate processes all return byte-identical results": the same (text, config) given
// to the real CLI in two processes whose worlds differ in everything the result must not depend
// on (how stdin/files are chunked, EINTR, directory order, clock, randomness, environment).
use vsim::clisim::types::{Case as CliCase, Inv, Mode, Shape, Step};

#[derive(Serialize, Deserialize, Clone, Debug)]
struct CliWorldsReplay {
    engine: String,
    property: String,
    tree: vsim::clisim::types::Tree,
    world_a: Inv,
    world_b: Inv,
    /// "worlds": world_a vs world_b on the same tree; "batch-vs-singles": world_a's file list in
    /// one process vs one process per file (world_b unused)
    #[serde(default)]
    mode: String,
    message: String,
}

/// The same files formatted by one CLI process (a list) and by one process per file, in the same
/// order: stdout (concatenated) and the final tree must be identical, and the batch must fail
/// iff one of the single runs fails. ("interleaved in any order with formatting of other
/// documents in the same process ... byte-identical results", at the level of the CLI.)
fn cli_batch_vs_singles(env: &vsim::clisim::run::Env, tree: &vsim::clisim::types::Tree, a: &Inv) -> Result<Option<String>, String> {
    let Shape::Files { mode, paths } = &a.shape else { return Ok(None) };
    vsim::clisim::world::materialise(&env.root(), tree).map_err(|e| e.to_string())?;
    let batch = vsim::clisim::run::run_inv(env, a).map_err(|e| e.to_string())?;
    let t_batch = vsim::clisim::world::snapshot_tree(&vsim::clisim::world::snapshot(&env.root()).map_err(|e| e.to_string())?);
    vsim::clisim::world::materialise(&env.root(), tree).map_err(|e| e.to_string())?;
    let mut so: Vec<u8> = Vec::new();
    let mut any_fail = false;
    for p in paths {
        let mut one = a.clone();
        one.shape = Shape::Files { mode: *mode, paths: vec![p.clone()] };
        let o = vsim::clisim::run::run_inv(env, &one).map_err(|e| e.to_string())?;
        if o.signal.is_some() {
            return Ok(None);
        }
        so.extend_from_slice(&o.stdout);
        any_fail |= o.exit != Some(0);
    }
    let t_single = vsim::clisim::world::snapshot_tree(&vsim::clisim::world::snapshot(&env.root()).map_err(|e| e.to_string())?);
    if batch.signal.is_some() {
        return Ok(None);
    }
    if *mode == Mode::Stdout && batch.stdout != so {
        let d = vsim::util::first_diff(&batch.stdout, &so);
        return Ok(Some(format!("stdout of one process formatting {} files differs from the concatenated stdout of one process per file: first difference at byte {} (batch {:?}, singles {:?})", paths.len(), d, vsim::util::excerpt(&batch.stdout[d.min(batch.stdout.len())..], 40), vsim::util::excerpt(&so[d.min(so.len())..], 40))));
    }
    if t_batch != t_single {
        let k = t_batch.iter().find(|(k, v)| t_single.get(*k) != Some(*v)).map(|(k, _)| k.clone()).or_else(|| t_single.keys().find(|k| !t_batch.contains_key(*k)).cloned()).unwrap_or_default();
        return Ok(Some(format!("the tree after one process formatting {} files in place differs from the tree after one process per file (first differing path {:?})", paths.len(), k)));
    }
    if *mode == Mode::Inplace && (batch.exit != Some(0)) != any_fail {
        return Ok(Some(format!("one process for {} files exits {:?}, but {} of the single-file processes failed", paths.len(), batch.exit, if any_fail { "at least one" } else { "none" })));
    }
    Ok(None)
}

/// `format-all DIR` (one process walks the tree) against one `-i` process per eligible file: what
/// a file is formatted to must not depend on which other files the same process has handled
/// before it (nor on the order the directory listing happens to have). `names` = the eligible
/// files as the model lists them (world-relative keys).
fn cli_walk_vs_singles(env: &vsim::clisim::run::Env, tree: &vsim::clisim::types::Tree, a: &Inv, names: &[String]) -> Result<Option<String>, String> {
    let Shape::FormatAll { check: false, .. } = &a.shape else { return Ok(None) };
    vsim::clisim::world::materialise(&env.root(), tree).map_err(|e| e.to_string())?;
    let walk = vsim::clisim::run::run_inv(env, a).map_err(|e| e.to_string())?;
    if walk.signal.is_some() {
        return Ok(None);
    }
    let t_walk = vsim::clisim::world::snapshot_tree(&vsim::clisim::world::snapshot(&env.root()).map_err(|e| e.to_string())?);
    vsim::clisim::world::materialise(&env.root(), tree).map_err(|e| e.to_string())?;
    for n in names {
        let mut one = a.clone();
        one.cwd = ".".into();
        one.style.pre_column = None;
        one.style.pre_tab = None;
        one.shape = Shape::Files { mode: Mode::Inplace, paths: vec![format!("{{ROOT}}/{}", n)] };
        let o = vsim::clisim::run::run_inv(env, &one).map_err(|e| e.to_string())?;
        if o.signal.is_some() {
            return Ok(None);
        }
    }
    let t_single = vsim::clisim::world::snapshot_tree(&vsim::clisim::world::snapshot(&env.root()).map_err(|e| e.to_string())?);
    if t_walk != t_single {
        let k = t_walk.iter().find(|(k, v)| t_single.get(*k) != Some(*v)).map(|(k, _)| k.clone()).or_else(|| t_single.keys().find(|k| !t_walk.contains_key(*k)).cloned()).unwrap_or_default();
        return Ok(Some(format!("the tree after one format-all process over {} eligible files differs from the tree after one in-place process per file (first differing path {:?})", names.len(), k)));
    }
    Ok(None)
}

/// State a tool keeps outside the formatted files (under HOME: a cache, stamps, a history) must
/// not change what a later invocation does: invocation 2 is run (i) after invocation 1 with the
/// HOME that invocation 1 left, and (ii) on the same tree with a fresh HOME; exit status, stdout
/// and the resulting tree must be identical. (`world_a` = invocation 1 with its fault plan,
/// `world_b` = invocation 2.)
fn cli_home_freshness(env: &vsim::clisim::run::Env, tree: &vsim::clisim::types::Tree, inv1: &Inv, inv2: &Inv) -> Result<Option<String>, String> {
    use vsim::clisim::world::{materialise, snapshot, snapshot_tree};
    let wipe_home = || {
        let _ = std::fs::remove_dir_all(env.home());
        let _ = std::fs::create_dir_all(env.home());
    };
    materialise(&env.root(), tree).map_err(|e| e.to_string())?;
    wipe_home();
    let o0 = vsim::clisim::run::run_inv(env, inv1).map_err(|e| e.to_string())?;
    if o0.signal.is_some() {
        return Ok(None);
    }
    let t1 = snapshot_tree(&snapshot(&env.root()).map_err(|e| e.to_string())?);
    let oa = vsim::clisim::run::run_inv(env, inv2).map_err(|e| e.to_string())?;
    let ta = snapshot_tree(&snapshot(&env.root()).map_err(|e| e.to_string())?);
    materialise(&env.root(), &t1).map_err(|e| e.to_string())?;
    wipe_home();
    let ob = vsim::clisim::run::run_inv(env, inv2).map_err(|e| e.to_string())?;
    let tb = snapshot_tree(&snapshot(&env.root()).map_err(|e| e.to_string())?);
    if oa.signal.is_some() || ob.signal.is_some() {
        return Ok(None);
    }
    if ta != tb {
        let k = ta.iter().find(|(k, v)| tb.get(*k) != Some(*v)).map(|(k, _)| k.clone()).or_else(|| tb.keys().find(|k| !ta.contains_key(*k)).cloned()).unwrap_or_default();
        return Ok(Some(format!("the same invocation on the same tree leaves a different tree depending on what an earlier invocation left under HOME (first differing path {:?}; earlier invocation: typstyle {} with plan {:?})", k, vsim::util::excerpt(inv1.argv("{ROOT}").join(" ").as_bytes(), 200), inv1.plan.iter().map(|r| r.render()).collect::<Vec<_>>())));
    }
    if oa.exit != ob.exit {
        return Ok(Some(format!("the same invocation on the same tree exits {:?} after an earlier invocation and {:?} with a fresh HOME", oa.exit, ob.exit)));
    }
    let strip = |o: &vsim::clisim::run::Outcome| -> Vec<u8> {
        // the summary line of format-all contains a duration
        o.stdout.split(|c| *c == b'\n').filter(|l| !l.windows(3).any(|w| w == b" in") || !l.ends_with(b"s")).collect::<Vec<_>>().join(&b'\n')
    };
    if strip(&oa) != strip(&ob) {
        return Ok(Some("the same invocation on the same tree prints different text on stdout depending on what an earlier invocation left under HOME".to_string()));
    }
    Ok(None)
}

/// What a *killed* invocation leaves next to the files (a staging file, a lock, a journal) must
/// not change what a later invocation does: invocation 1 is cut short by a crash fault;
/// invocation 2 is then run (i) on the tree as invocation 1 left it and (ii) on the same tree
/// without the hidden entries invocation 1 created. Exit status, stdout and the resulting tree
/// (those hidden entries aside) must be identical. HOME is fresh for every run.
fn cli_leftover_freshness(env: &vsim::clisim::run::Env, tree: &vsim::clisim::types::Tree, inv1: &Inv, inv2: &Inv) -> Result<Option<String>, String> {
    use vsim::clisim::world::{materialise, snapshot, snapshot_tree};
    let wipe_home = || {
        let _ = std::fs::remove_dir_all(env.home());
        let _ = std::fs::create_dir_all(env.home());
    };
    let hidden_new = |k: &String| !tree.contains_key(k) && k.split('/').any(|c| c.starts_with('.'));
    materialise(&env.root(), tree).map_err(|e| e.to_string())?;
    wipe_home();
    let _ = vsim::clisim::run::run_inv(env, inv1).map_err(|e| e.to_string())?;
    let t1 = snapshot_tree(&snapshot(&env.root()).map_err(|e| e.to_string())?);
    if !t1.keys().any(|k| hidden_new(k)) {
        return Ok(None); // nothing was left behind
    }
    wipe_home();
    let oa = vsim::clisim::run::run_inv(env, inv2).map_err(|e| e.to_string())?;
    let mut ta = snapshot_tree(&snapshot(&env.root()).map_err(|e| e.to_string())?);
    let mut t1_clean = t1.clone();
    t1_clean.retain(|k, _| !hidden_new(k));
    materialise(&env.root(), &t1_clean).map_err(|e| e.to_string())?;
    wipe_home();
    let ob = vsim::clisim::run::run_inv(env, inv2).map_err(|e| e.to_string())?;
    let mut tb = snapshot_tree(&snapshot(&env.root()).map_err(|e| e.to_string())?);
    if oa.signal.is_some() || ob.signal.is_some() {
        return Ok(None);
    }
    ta.retain(|k, _| !hidden_new(k));
    tb.retain(|k, _| !hidden_new(k));
    if ta != tb {
        let k = ta.iter().find(|(k, v)| tb.get(*k) != Some(*v)).map(|(k, _)| k.clone()).or_else(|| tb.keys().find(|k| !ta.contains_key(*k)).cloned()).unwrap_or_default();
        return Ok(Some(format!("the same invocation leaves a different tree depending on hidden entries that an earlier, killed invocation left behind (first differing path {:?}; earlier invocation: typstyle {} with plan {:?})", k, vsim::util::excerpt(inv1.argv("{ROOT}").join(" ").as_bytes(), 200), inv1.plan.iter().map(|r| r.render()).collect::<Vec<_>>())));
    }
    if oa.exit != ob.exit {
        return Ok(Some(format!("the same invocation exits {:?} with the hidden entries an earlier, killed invocation left behind and {:?} without them", oa.exit, ob.exit)));
    }
    Ok(None)
}

fn cli_replay_differs(env: &vsim::clisim::run::Env, r: &CliWorldsReplay) -> Result<Option<String>, String> {
    if r.mode == "home-freshness" {
        return cli_home_freshness(env, &r.tree, &r.world_a, &r.world_b);
    }
    if r.mode == "leftover-freshness" {
        return cli_leftover_freshness(env, &r.tree, &r.world_a, &r.world_b);
    }
    if r.mode == "walk-vs-singles" {
        let mut oracle = vsim::oracle::Oracle::new();
        let names = walk_names(&r.tree, &r.world_a, &mut oracle);
        return cli_walk_vs_singles(env, &r.tree, &r.world_a, &names);
    }
    if r.mode == "batch-vs-singles" {
        cli_batch_vs_singles(env, &r.tree, &r.world_a)
    } else {
        cli_worlds_differ(env, &r.tree, &r.world_a, &r.world_b)
    }
}

/// The tree key a spelled path leads to, if every step on the way is a real directory (no links,
/// nothing missing), so that textual and real resolution agree; None otherwise.
fn plain_key(tree: &vsim::clisim::types::Tree, cwd: &str, spelled: &str) -> Option<String> {
    use vsim::clisim::types::Node;
    let (mut cur, rest): (Vec<String>, &str) = if let Some(r) = spelled.strip_prefix("{ROOT}") {
        (Vec::new(), r.trim_start_matches('/'))
    } else if spelled.starts_with('/') {
        return None;
    } else {
        (if cwd == "." { Vec::new() } else { cwd.split('/').map(|x| x.to_string()).collect() }, spelled)
    };
    let is_dir = |c: &Vec<String>| c.is_empty() || matches!(tree.get(&c.join("/")), Some(Node::Dir));
    if !is_dir(&cur) {
        return None;
    }
    let comps: Vec<&str> = rest.split('/').filter(|c| !c.is_empty() && *c != ".").collect();
    for (i, c) in comps.iter().enumerate() {
        if *c == ".." {
            cur.pop()?;
        } else {
            cur.push(c.to_string());
        }
        let last = i + 1 == comps.len();
        if !last && !is_dir(&cur) {
            return None;
        }
    }
    if rest.ends_with('/') && !is_dir(&cur) {
        return None;
    }
    let key = if cur.is_empty() { ".".to_string() } else { cur.join("/") };
    match tree.get(&key) {
        Some(Node::File(_)) | Some(Node::Dir) => Some(key),
        None if key == "." => Some(key),
        _ => None,
    }
}

/// the same invocation with every path spelled absolutely and started in the world root
fn respelled(tree: &vsim::clisim::types::Tree, a: &Inv) -> Option<Inv> {
    let mut b = a.clone();
    match &a.shape {
        Shape::Files { mode, paths } => {
            if paths.len() > 2000 {
                return None; // (absolute spellings of a 65 600-path list exceed the argument limit)
            }
            let mut out = Vec::new();
            for p in paths {
                if p == "/dev/stdin" {
                    return None;
                }
                let k = plain_key(tree, &a.cwd, p)?;
                if !matches!(tree.get(&k), Some(vsim::clisim::types::Node::File(_))) {
                    return None;
                }
                out.push(format!("{{ROOT}}/{}", k));
            }
            b.shape = Shape::Files { mode: *mode, paths: out };
        }
        Shape::FormatAll { check, dir, inplace } => {
            let k = plain_key(tree, &a.cwd, dir.as_deref().unwrap_or("."))?;
            if k != "." && !matches!(tree.get(&k), Some(vsim::clisim::types::Node::Dir)) {
                return None;
            }
            b.shape = Shape::FormatAll { check: *check, dir: Some(if k == "." { "{ROOT}".to_string() } else { format!("{{ROOT}}/{}", k) }), inplace: *inplace };
        }
        Shape::Stdin { .. } => return None,
    }
    b.cwd = ".".into();
    Some(b)
}

/// the eligible files of a format-all invocation, as the model lists them
fn walk_names(tree: &vsim::clisim::types::Tree, a: &Inv, oracle: &mut vsim::oracle::Oracle) -> Vec<String> {
    let pred = vsim::clisim::model::predict(tree, a, &Default::default(), oracle);
    if pred.unmodelled.is_some() || pred.oracle_unavailable {
        return Vec::new();
    }
    pred.inputs.iter().map(|i| i.named.clone()).collect()
}

fn cli_env(worker: usize) -> vsim::clisim::run::Env {
    let v = verif_dir();
    let bin = std::env::var("VSIM_BIN").map(PathBuf::from).unwrap_or_else(|_| v.join(".target/cli/debug/typstyle"));
    let scratch = if Path::new("/dev/shm").is_dir() { PathBuf::from("/dev/shm") } else { std::env::temp_dir() };
    let base = scratch.join(format!("typstyle-verif-{:07}", std::process::id())).join(format!("c{:05}", worker));
    vsim::clisim::run::Env { bin, shim: shim_path(), base }
}

/// runs both worlds on the same tree; Some(message) if the observable result differs
fn cli_worlds_differ(env: &vsim::clisim::run::Env, tree: &vsim::clisim::types::Tree, a: &Inv, b: &Inv) -> Result<Option<String>, String> {
    use vsim::clisim::world::{materialise, snapshot, snapshot_tree};
    materialise(&env.root(), tree).map_err(|e| e.to_string())?;
    let oa = vsim::clisim::run::run_inv(env, a).map_err(|e| e.to_string())?;
    let ta = snapshot_tree(&snapshot(&env.root()).map_err(|e| e.to_string())?);
    materialise(&env.root(), tree).map_err(|e| e.to_string())?;
    let ob = vsim::clisim::run::run_inv(env, b).map_err(|e| e.to_string())?;
    let tb = snapshot_tree(&snapshot(&env.root()).map_err(|e| e.to_string())?);
    if oa.signal.is_some() || ob.signal.is_some() {
        return Ok(None);
    }
    if !vsim::clisim::run::fired(&ob.trace).transient_read.is_empty() && ob.exit != Some(0) {
        // world B met a transient read error and said so: an honest failure, no verdict
        return Ok(None);
    }
    let strip = |o: &vsim::clisim::run::Outcome| -> Vec<u8> {
        // the summary line of format-all contains a duration
        if matches!(a.shape, Shape::FormatAll { .. }) {
            // ... and the per-file lines come in the order the directory listing happens to have
            let mut lines = o.stdout.split(|c| *c == b'\n').filter(|l| !l.windows(3).any(|w| w == b" in") || !l.ends_with(b"s")).collect::<Vec<_>>();
            lines.sort();
            lines.join(&b'\n')
        } else {
            o.stdout.clone()
        }
    };
    let (sa, sb) = (strip(&oa), strip(&ob));
    // (world B may spell the paths differently: informational lines that name files then differ
    // by right; the documents printed in stdout mode do not)
    let respelled = a.shape != b.shape || a.cwd != b.cwd;
    let documents_only = matches!(a.shape, Shape::Files { mode: Mode::Stdout, .. }) && a.debug == 0;
    if sa != sb && (!respelled || documents_only) {
        let d = vsim::util::first_diff(&sa, &sb);
        return Ok(Some(format!(
            "the same text and configuration give different stdout in two CLI processes: first difference at byte {} (world A {:?}, world B {:?}; world B plan {:?}, env {:?})",
            d,
            vsim::util::excerpt(&sa[d.min(sa.len())..], 40),
            vsim::util::excerpt(&sb[d.min(sb.len())..], 40),
            b.plan.iter().map(|r| r.render()).collect::<Vec<_>>(),
            b.env
        )));
    }
    if ta != tb {
        let k = ta.iter().find(|(k, v)| tb.get(*k) != Some(*v)).map(|(k, _)| k.clone()).or_else(|| tb.keys().find(|k| !ta.contains_key(*k)).cloned()).unwrap_or_default();
        return Ok(Some(format!(
            "the same invocation on the same tree leaves a different tree in two CLI processes (first differing path {:?}; world B plan {:?}, env {:?})",
            k,
            b.plan.iter().map(|r| r.render()).collect::<Vec<_>>(),
            b.env
        )));
    }
    if oa.exit != ob.exit {
        return Ok(Some(format!("the same text and configuration give exit status {:?} in one CLI process and {:?} in another (world B plan {:?}, env {:?})", oa.exit, ob.exit, b.plan.iter().map(|r| r.render()).collect::<Vec<_>>(), b.env)));
    }
    Ok(None)
}

struct CliLane {
    pairs: u64,
    batch_pairs: u64,
    home_pairs: u64,
    faults_in_b: u64,
    found: Option<CliWorldsReplay>,
    errors: Vec<String>,
}

fn cli_worlds_lane(base: u64, n: u64, workers: usize) -> CliLane {
    use std::sync::atomic::{AtomicU64, Ordering};
    use std::sync::{Arc, Mutex};
    let next = Arc::new(AtomicU64::new(0));
    let out = Arc::new(Mutex::new(CliLane { pairs: 0, batch_pairs: 0, home_pairs: 0, faults_in_b: 0, found: None, errors: vec![] }));
    let fixtures = Arc::new(load_fixtures());
    let mut hs = Vec::new();
    for w in 0..workers {
        let (next, out, fixtures) = (next.clone(), out.clone(), fixtures.clone());
        hs.push(std::thread::Builder::new().stack_size(512 << 20).spawn(move || {
            let env = cli_env(w);
            let mut oracle = vsim::oracle::Oracle::new();
            let params = vsim::clisim::workload::GenParams { focus: vsim::clisim::workload::Focus::C16, max_large: 70_000, fixtures };
            loop {
                let i = next.fetch_add(1, Ordering::Relaxed);
                if i >= n || out.lock().unwrap().found.is_some() {
                    break;
                }
                let seed = mix(base ^ 0xC11, i);
                let case: CliCase = match std::panic::catch_unwind(std::panic::AssertUnwindSafe(|| vsim::clisim::workload::gen_case(seed, "benign", &params, &mut oracle))) {
                    Ok(c) => c,
                    Err(_) => {
                        out.lock().unwrap().errors.push(format!("seed {}: the harness panicked while generating a case", seed));
                        oracle = vsim::oracle::Oracle::new();
                        continue;
                    }
                };
                // every third seed: does what an earlier invocation left under HOME matter?
                if i % 3 == 2 {
                    let invs: Vec<Inv> = case.steps.iter().filter_map(|s| if let Step::Inv(x) = s { Some(x.clone()) } else { None }).collect();
                    let Some(first) = invs.first().cloned() else { continue };
                    let mut inv1 = first.clone();
                    let mut frng = vsim::rng::Rng::stream(seed, "faults");
                    vsim::clisim::plan::add_plan(&mut frng, "hard", &case.tree, &mut inv1, &mut oracle, 40);
                    // a crash or a failed std stream may legitimately leave HOME in any state
                    inv1.plan.retain(|r| r.kind != "crash" && !(r.kind == "write" && r.sel.starts_with('@')));
                    let mut inv2 = if invs.len() > 1 && frng.chance(0.4) { invs[1].clone() } else { first.clone() };
                    inv2.plan.clear();
                    inv2.readdir = "sorted".into();
                    if inv2.cwd != "." && !matches!(case.tree.get(&inv2.cwd), Some(vsim::clisim::types::Node::Dir)) {
                        inv2.cwd = ".".into();
                    }
                    // every other one of these: a *killed* write-mode invocation first, then the
                    // same files under another style - does what the first left behind matter?
                    let leftover = i % 6 == 5 && matches!(first.shape, Shape::Files { mode: Mode::Inplace, .. } | Shape::FormatAll { check: false, .. });
                    if leftover {
                        inv1 = first.clone();
                        inv1.plan = vec![vsim::clisim::types::Rule::new("crash", "**", frng.range(2, 40), 0)];
                        inv2 = first.clone();
                        inv2.plan.clear();
                        inv2.readdir = "sorted".into();
                        inv2.style.column = Some(if inv1.style.cfg().column >= 60 { *frng.pick(&[0usize, 20, 30]) } else { *frng.pick(&[120usize, 200, 400]) });
                    }
                    let (res, mode) = if leftover { (cli_leftover_freshness(&env, &case.tree, &inv1, &inv2), "leftover-freshness") } else { (cli_home_freshness(&env, &case.tree, &inv1, &inv2), "home-freshness") };
                    match res {
                        Ok(res) => {
                            let mut o = out.lock().unwrap();
                            o.home_pairs += 1;
                            if let Some(msg) = res {
                                if o.found.is_none() {
                                    o.found = Some(CliWorldsReplay { engine: "cliworlds".into(), property: "C17".into(), tree: case.tree.clone(), world_a: inv1, world_b: inv2, mode: mode.into(), message: msg });
                                }
                            }
                        }
                        Err(e) => out.lock().unwrap().errors.push(format!("seed {}: {}", seed, e)),
                    }
                    continue;
                }
                // odd seeds: one process for a list vs one process per file
                if i % 2 == 1 {
                    let Some(Step::Inv(inv)) = case.steps.iter().find(|s| matches!(s, Step::Inv(Inv { shape: Shape::Files { mode: Mode::Stdout | Mode::Inplace, paths }, .. }) if paths.len() >= 2)).cloned() else { continue };
                    let mut a = inv.clone();
                    a.plan.clear();
                    a.readdir = "sorted".into();
                    a.shim_seed = 1;
                    // an -i list must not name symlinks (see DESIGN 4.3)
                    if let Shape::Files { mode: Mode::Inplace, paths } = &a.shape {
                        if paths.iter().any(|p| vsim::clisim::types::resolve(&a.cwd, p).map(|k| matches!(case.tree.get(&k), Some(vsim::clisim::types::Node::Symlink(_)))).unwrap_or(true)) {
                            continue;
                        }
                    }
                    match cli_batch_vs_singles(&env, &case.tree, &a) {
                        Ok(res) => {
                            let mut o = out.lock().unwrap();
                            o.batch_pairs += 1;
                            if let Some(msg) = res {
                                if o.found.is_none() {
                                    o.found = Some(CliWorldsReplay { engine: "cliworlds".into(), property: "C17".into(), tree: case.tree.clone(), world_a: a.clone(), world_b: a, mode: "batch-vs-singles".into(), message: msg });
                                }
                            }
                        }
                        Err(e) => out.lock().unwrap().errors.push(format!("seed {}: {}", seed, e)),
                    }
                    continue;
                }
                // any shape: stdout, stdin, --check, -i and format-all (for the writing modes the final
                // trees are compared)
                let Some(Step::Inv(inv)) = case.steps.iter().find(|s| matches!(s, Step::Inv(_))).cloned() else { continue };
                let mut a = inv.clone();
                a.plan.clear();
                a.readdir = "sorted".into();
                a.env.clear();
                a.shim_seed = 1;
                if matches!(a.shape, Shape::FormatAll { check: false, .. }) && i % 4 < 2 {
                    // one walking process vs one process per eligible file (directory order permuted)
                    a.readdir = "perm".into();
                    a.shim_seed = seed >> 1;
                    let names = walk_names(&case.tree, &a, &mut oracle);
                    if names.len() >= 2 && names.len() <= 40 {
                        match cli_walk_vs_singles(&env, &case.tree, &a, &names) {
                            Ok(res) => {
                                let mut o = out.lock().unwrap();
                                o.batch_pairs += 1;
                                if let Some(msg) = res {
                                    if o.found.is_none() {
                                        o.found = Some(CliWorldsReplay { engine: "cliworlds".into(), property: "C17".into(), tree: case.tree.clone(), world_a: a.clone(), world_b: a, mode: "walk-vs-singles".into(), message: msg });
                                    }
                                }
                            }
                            Err(e) => out.lock().unwrap().errors.push(format!("seed {}: {}", seed, e)),
                        }
                        continue;
                    }
                    a.readdir = "sorted".into();
                    a.shim_seed = 1;
                }
                let mut b = inv.clone();
                let mut frng = vsim::rng::Rng::stream(seed, "faults");
                // one pair in three: world B names the same files by absolute paths and starts in
                // another directory - how a file is spelled is not part of "text and configuration"
                if frng.chance(0.33) {
                    if let Some(r) = respelled(&case.tree, &b) {
                        b = r;
                    }
                }
                vsim::clisim::plan::add_plan(&mut frng, "benign", &case.tree, &mut b, &mut oracle, 40);
                if b.env.is_empty() {
                    b.env.push(("COLUMNS".into(), "33".into()));
                }
                // a flaky mount in world B: one read of one input fails once (ETIMEDOUT/EAGAIN/EIO)
                // and works afterwards. A process that reports the failure (exit status not 0)
                // gives no verdict; one that claims success must have produced what world A did.
                if frng.chance(0.15) {
                    let pred = vsim::clisim::model::predict(&case.tree, &b, &Default::default(), &mut oracle);
                    let cands: Vec<(String, usize)> = pred.inputs.iter().filter(|i| i.named != "<stdin>" && !matches!(i.class, vsim::clisim::model::InputClass::Unreadable(_))).map(|i| (i.named.clone(), i.len)).collect();
                    if !cands.is_empty() {
                        let (p, len) = frng.pick(&cands).clone();
                        let k = if frng.chance(0.3) { 0 } else { frng.below(len + 1) };
                        b.plan.push(vsim::clisim::types::Rule::new("tread", &p, format!("+{}", k), *frng.pick(&["ETIMEDOUT", "EAGAIN", "EIO"])));
                    }
                }
                // a machine whose clock was never set (2001), or one far ahead (2033)
                match frng.below(4) {
                    0 => b.env.push(("VSIM_CLOCK_BASE".into(), "1000000000".into())),
                    1 => b.env.push(("VSIM_CLOCK_BASE".into(), "2000000000".into())),
                    _ => {}
                }
                match cli_worlds_differ(&env, &case.tree, &a, &b) {
                    Ok(res) => {
                        let mut o = out.lock().unwrap();
                        o.pairs += 1;
                        o.faults_in_b += b.plan.len() as u64;
                        if let Some(msg) = res {
                            if o.found.is_none() {
                                o.found = Some(CliWorldsReplay { engine: "cliworlds".into(), property: "C17".into(), tree: case.tree.clone(), world_a: a, world_b: b, mode: "worlds".into(), message: msg });
                            }
                        }
                    }
                    Err(e) => out.lock().unwrap().errors.push(format!("seed {}: {}", seed, e)),
                }
            }
            let _ = std::fs::remove_dir_all(&env.base);
        }).expect("spawn"));
    }
    for h in hs {
        let _ = h.join();
    }
    let mut lane = std::mem::replace(&mut *out.lock().unwrap(), CliLane { pairs: 0, batch_pairs: 0, home_pairs: 0, faults_in_b: 0, found: None, errors: vec![] });
    // minimise: drop world-B rules and environment, shorten the inputs line-wise
    if let Some(mut r) = lane.found.take() {
        let env = cli_env(9999);
        let still = |r: &CliWorldsReplay| cli_replay_differs(&env, r).ok().flatten();
        let mut i = 0;
        while i < r.world_b.plan.len() {
            let mut c = r.clone();
            c.world_b.plan.remove(i);
            if still(&c).is_some() { r = c } else { i += 1 }
        }
        let mut i = 0;
        while r.mode == "home-freshness" && i < r.world_a.plan.len() {
            let mut c = r.clone();
            c.world_a.plan.remove(i);
            if still(&c).is_some() { r = c } else { i += 1 }
        }
        let mut c = r.clone();
        c.world_b.env.clear();
        if still(&c).is_some() {
            r = c;
        }
        // batch mode: drop paths from the list while at least two remain
        loop {
            let n = match &r.world_a.shape { Shape::Files { paths, .. } => paths.len(), _ => 0 };
            let mut dropped = false;
            if r.mode == "batch-vs-singles" && n > 2 {
                for k in 0..n {
                    let mut c = r.clone();
                    if let Shape::Files { paths, .. } = &mut c.world_a.shape {
                        paths.remove(k);
                    }
                    if still(&c).is_some() {
                        r = c;
                        dropped = true;
                        break;
                    }
                }
            }
            if !dropped {
                break;
            }
        }
        // inputs: stdin, or every file of the tree
        let shrink_lines = |text: &[u8], put: &dyn Fn(&mut CliWorldsReplay, Vec<u8>), r: &mut CliWorldsReplay| {
            let mut lines: Vec<Vec<u8>> = text.split_inclusive(|c| *c == b'\n').map(|l| l.to_vec()).collect();
            let mut k = 0;
            let mut budget = 200;
            while k < lines.len() && lines.len() > 1 && budget > 0 {
                budget -= 1;
                let mut cand = lines.clone();
                cand.remove(k);
                let mut c = r.clone();
                put(&mut c, cand.concat());
                if cli_replay_differs(&env, &c).ok().flatten().is_some() {
                    lines = cand;
                    *r = c;
                } else {
                    k += 1;
                }
            }
        };
        if let Some(b) = r.world_a.stdin.clone() {
            shrink_lines(&b.0, &|c, nb| {
                c.world_a.stdin = Some(vsim::util::Bytes(nb.clone()));
                c.world_b.stdin = Some(vsim::util::Bytes(nb));
            }, &mut r);
        }
        let keys: Vec<String> = r.tree.keys().cloned().collect();
        for k in keys {
            // drop files that do not matter, shorten those that do
            let mut c = r.clone();
            c.tree.remove(&k);
            if still(&c).is_some() {
                r = c;
                continue;
            }
            if let Some(vsim::clisim::types::Node::File(b)) = r.tree.get(&k).cloned() {
                let kk = k.clone();
                shrink_lines(&b.0, &move |c, nb| {
                    c.tree.insert(kk.clone(), vsim::clisim::types::Node::File(vsim::util::Bytes(nb)));
                }, &mut r);
            }
        }
        if let Some(m) = still(&r) {
            r.message = m;
        }
        let _ = std::fs::remove_dir_all(&env.base);
        lane.found = Some(r);
    }
    let scratch = if Path::new("/dev/shm").is_dir() { PathBuf::from("/dev/shm") } else { std::env::temp_dir() };
    let _ = std::fs::remove_dir(scratch.join(format!("typstyle-verif-{:07}", std::process::id())));
    lane
}


// ------------------------------------------------------------------ lane B4: a long-lived process
// ---- lane B5: the caller's stack. The same call on threads with little and with plenty of stack
// (each in a fresh process) must return the same result as long as it returns at all: how much
// head-room the caller happens to have is not part of "text and configuration". For every family
// of nested documents and every small stack size the depth at which the call dies is found by
// bisection; below it (50 %, 70 %, 85 %, 93 % of that depth) the result on the small stack is
// compared with the result on a 256 MiB stack.
#[derive(Serialize, Deserialize, Clone, Debug)]
struct HeadroomReplay {
    engine: String,
    property: String,
    family: usize,
    depth: usize,
    stack_kib: u64,
    cfg: vsim::oracle::Cfg,
    message: String,
}

fn headroom_doc(family: usize, d: usize) -> String {
    match family {
        0 => format!("#{}1{}\n", "f(".repeat(d), ")".repeat(d)),
        1 => format!("#let x = {}1{}\n", "(".repeat(d), ",)".repeat(d)),
        2 => format!("#f{}x{}\n", "[#f".repeat(d), "]".repeat(d)),
        3 => format!("#let x = {}1{}\n", "(a: ".repeat(d), ")".repeat(d)),
        4 => format!("$ {}x{} $\n", "(".repeat(d), ")".repeat(d)),
        _ => format!("#{{\n{}1{}\n}}\n", "{ ".repeat(d), " }".repeat(d)),
    }
}
const HEADROOM_FAMILIES: usize = 6;

fn headroom_compare(client: &mut vsim::coresim::refproc::RefClient, family: usize, depth: usize, stack_kib: u64, cfg: vsim::oracle::Cfg) -> std::io::Result<Option<String>> {
    use vsim::coresim::{Call, Op, Res};
    let call = Call { op: Op::Content, doc: 0, cfg, feed_prev: false, via_clone: false, nest: None, own_source: false };
    let text = headroom_doc(family, depth);
    let small = client.query_on_stack(&call, &text, Some(stack_kib))?;
    if small == Res::Panic {
        return Ok(None); // too deep for this stack: no result, nothing to compare
    }
    let big = client.query_on_stack(&call, &text, Some(256 << 10))?;
    if big == Res::Panic || small == big {
        return Ok(None);
    }
    let show = |r: &Res| match r {
        Res::Ok(s) => format!("Ok({} bytes, digest {:016x})", s.len(), vsim::rng::fnv(s.as_bytes())),
        other => format!("{:?}", other),
    };
    Ok(Some(format!("family {} nested {} deep, {:?}: on a thread with {} KiB of stack the call returns {}, on one with 256 MiB {}", family, depth, cfg, stack_kib, show(&small), show(&big))))
}

struct HeadroomOutcome {
    comparisons: u64,
    limits: Vec<String>,
    found: Option<HeadroomReplay>,
    error: Option<String>,
}

fn headroom_lane(thorough: bool) -> HeadroomOutcome {
    use vsim::coresim::{Call, Op, Res};
    let mut out = HeadroomOutcome { comparisons: 0, limits: vec![], found: None, error: None };
    let exe = std::env::current_exe().unwrap();
    let mut client = match vsim::coresim::refproc::RefClient::spawn(&exe, &shim_path(), false, 7) {
        Ok(c) => c,
        Err(e) => {
            out.error = Some(format!("cannot start a reference server: {e}"));
            return out;
        }
    };
    let stacks: &[u64] = if thorough { &[192, 256, 512, 1024, 2048] } else { &[256, 512, 1024] };
    let cfgs = [vsim::oracle::Cfg::default(), vsim::oracle::Cfg { column: 20, tab: 4, reorder: false, blank: 2 }];
    for family in 0..HEADROOM_FAMILIES {
        for &kib in stacks {
            let cfg = cfgs[(family + kib as usize) % 2];
            let call = Call { op: Op::Content, doc: 0, cfg, feed_prev: false, via_clone: false, nest: None, own_source: false };
            let mut dies = |d: usize, client: &mut vsim::coresim::refproc::RefClient| -> std::io::Result<bool> { Ok(client.query_on_stack(&call, &headroom_doc(family, d), Some(kib))? == Res::Panic) };
            // exponential search, then bisection
            let mut lo = 8usize;
            let mut hi = 16usize;
            let cap = 1usize << 15;
            let r: std::io::Result<Option<usize>> = (|| {
                if dies(lo, &mut client)? {
                    return Ok(None);
                }
                while hi <= cap && !dies(hi, &mut client)? {
                    lo = hi;
                    hi *= 2;
                }
                if hi > cap {
                    return Ok(None); // never dies below the cap (e.g. the parser refuses first)
                }
                while hi - lo > (lo / 32).max(1) {
                    let mid = (lo + hi) / 2;
                    if dies(mid, &mut client)? {
                        hi = mid;
                    } else {
                        lo = mid;
                    }
                }
                Ok(Some(lo))
            })();
            let dmax = match r {
                Ok(Some(d)) => d,
                Ok(None) => {
                    out.limits.push(format!("family {} / {} KiB: no limit found", family, kib));
                    continue;
                }
                Err(e) => {
                    out.error = Some(format!("reference server: {e}"));
                    return out;
                }
            };
            out.limits.push(format!("family {} / {} KiB: survives {} levels", family, kib, dmax));
            for pct in [50usize, 70, 85, 93] {
                let d = (dmax * pct / 100).max(1);
                out.comparisons += 1;
                match headroom_compare(&mut client, family, d, kib, cfg) {
                    Ok(Some(msg)) => {
                        if out.found.is_none() {
                            out.found = Some(HeadroomReplay { engine: "headroom".into(), property: "C17".into(), family, depth: d, stack_kib: kib, cfg, message: msg });
                        }
                    }
                    Ok(None) => {}
                    Err(e) => {
                        out.error = Some(format!("reference server: {e}"));
                        return out;
                    }
                }
            }
            if out.found.is_some() {
                return out;
            }
        }
    }
    out
}

// One process, one thread, very many calls on tiny documents: every result must equal the first
// result for the same (call, text) - i.e. nothing accumulates over the life of an embedder.
#[derive(Serialize, Deserialize, Clone, Debug)]
struct SoakResult {
    calls: u64,
    /// (index of the failing call, description)
    failure: Option<(u64, String)>,
}

#[derive(Serialize, Deserialize, Clone, Debug)]
struct SoakReplay {
    engine: String,
    property: String,
    calls: u64,
    failing_call: u64,
    message: String,
}

fn soak_call(k: u64) -> (String, vsim::coresim::Call) {
    // Documents are drawn pseudo-randomly (a function of k only). Twin families share their tree
    // shape - hence their span numbers - and differ in attributes; the "writer" twin (with
    // `@typstyle off`, multi-line flavour) is rare, the "reader" twins are frequent, so that for
    // any recycling period P there are many pairs (k, k+P) of writer and reader with no other
    // writer in between.
    const ORDINARY: &[&str] = &["#let x = 1\n", "#f(1,2)\n", "= T\n", "#import \"m.typ\": b, a\n", "$x$\n", "#table(columns: 2, [a], [b])\n", "#let y=(1,\n2)\n", "text\n", "#a.b.c(1)\n",
        // one formatting pass is not a fixed point here (trailing blanks inside multi-line raw
        // text near the width limit): whatever "re-checks" or "settles" results every so often
        // returns something else than the plain call
        "#figure(box(`xxxxxxxxxxxxxxxxxxxxxxxxxxxxxxxxxxxxxxxxxxxxxxxx                                                                      \nsecond`))\n"];
    const WRITERS: &[&str] = &["// @typstyle off\n#let   a=(1,2 ,3)\n", "#f(\n  1, /* @typstyle off */ (2,3))\n"];
    const READERS: &[&str] = &["// typstyle note\n#let   a=(1,2 ,3)\n", "#f(1, /* typstyle note */ (2,3))\n"];
    // Long recycling periods (a 16-bit generation counter): between a writer and the reader
    // 65 536 calls later there are hundreds of other writers of the same shape, so the random
    // mix above never isolates such a pair. A deterministic sub-sequence does: about a thousand
    // residues per 65 536 calls carry a family of 150 shapes (n filler lines before the item, so
    // that the item's span numbers differ from shape to shape); at residue r the writer twin in
    // even periods and the reader twin in odd ones, at residue r+1 always the reader twin (which
    // records the right answer before anything can have been recycled).
    let p16 = k % 65536;
    if p16 % 61 == 7 || p16 % 61 == 8 {
        let n = ((p16 / 61) % 150) as usize;
        let writer = p16 % 61 == 7 && (k / 65536) % 2 == 0;
        let text = format!("{}{}", "#let v = 1\n".repeat(n), if writer { WRITERS[0] } else { READERS[0] });
        return (text, vsim::coresim::Call { op: Op::Content, doc: 0, cfg: vsim::oracle::Cfg::default(), feed_prev: false, via_clone: false, nest: None, own_source: false });
    }
    let mut st = k ^ 0x50A4;
    let r = vsim::rng::splitmix(&mut st);
    let pick = r % 1000;
    let text = if pick < 7 {
        WRITERS[(r >> 20) as usize % WRITERS.len()]
    } else if pick < 100 {
        READERS[(r >> 20) as usize % READERS.len()]
    } else {
        ORDINARY[(r >> 20) as usize % ORDINARY.len()]
    }
    .to_string();
    let cfg = vsim::oracle::Cfg { column: [80usize, 20, 120][(r >> 32) as usize % 3], tab: 2, reorder: (r >> 40) % 5 == 0, blank: 2 };
    let op = match (r >> 48) % 10 {
        0..=5 => Op::Content,
        6..=8 => Op::Source,
        _ => Op::Width,
    };
    (text, vsim::coresim::Call { op, doc: 0, cfg, feed_prev: false, via_clone: false, nest: None, own_source: false })
}

fn cmd_soak(args: &[String]) -> i32 {
    vsim::oracle::silence_panics();
    let n: u64 = arg_value(args, "--calls").and_then(|x| x.parse().ok()).unwrap_or(100_000);
    let mut first: BTreeMap<u64, vsim::coresim::Res> = BTreeMap::new();
    let mut res = SoakResult { calls: 0, failure: None };
    for k in 0..n {
        let (text, call) = soak_call(k);
        let key = vsim::rng::fnv(format!("{}|{}", serde_json::to_string(&call).unwrap(), text).as_bytes());
        let r = std::panic::catch_unwind(|| vsim::coresim::exec::exec_call(&call, &text, None, None)).unwrap_or(vsim::coresim::Res::Panic);
        res.calls += 1;
        match first.get(&key) {
            None => {
                first.insert(key, r);
            }
            Some(f) if *f != r => {
                res.failure = Some((k, format!("call #{} ({:?} on {:?}, {:?}) returns something else than the first call with the same arguments in this process: {}", k, call.op, text, call.cfg, vsim::coresim::shrink::diff_msg(&r, f))));
                break;
            }
            _ => {}
        }
    }
    println!("{}", serde_json::to_string(&res).unwrap());
    0
}

fn run_soak(calls: u64) -> Option<SoakResult> {
    let exe = std::env::current_exe().ok()?;
    let out = Command::new(exe)
        .args(["soak", "--calls", &calls.to_string()])
        .env("LD_PRELOAD", shim_path())
        .env("VSIM_SEED", "1")
        .stderr(Stdio::null())
        .output()
        .ok()?;
    serde_json::from_slice::<SoakResult>(&out.stdout).ok()
}

// ------------------------------------------------------------------ lane B3: Miri
#[derive(Serialize, Deserialize, Clone, Debug)]
struct MiriReplay {
    engine: String,
    property: String,
    /// program arguments of a generated scenario (`gen doc0 doc1 w0 w1`); empty for built-in ones
    #[serde(default)]
    gen_args: Vec<String>,
    scenario: usize,
    miri_seed: u64,
    kind: String,
    excerpt: String,
}

struct MiriOutcome {
    /// scenario number (>= 100) -> program arguments of a generated scenario
    gen_args: BTreeMap<usize, Vec<String>>,
    ok_runs: u64,
    /// (scenario, failing seed, kind, excerpt) - kind: race | result | other
    failures: Vec<(usize, u64, String, String)>,
    unavailable: Option<String>,
    wall_s: f64,
}

fn miri_flags(extra: &str) -> String {
    // tree borrows: the `pretty` dependency's arena trips Stacked Borrows in purely sequential code
    // (not typstyle code and unrelated to C17); data-race detection is unaffected
    format!("-Zmiri-preemption-rate=0.1 -Zmiri-tree-borrows -Zmiri-ignore-leaks {}", extra)
}

#[allow(dead_code)]
fn run_miri(scenario: usize, flags: &str) -> Result<String, String> {
    run_miri_args(&[scenario.to_string()], flags)
}

fn run_miri_args(prog_args: &[String], flags: &str) -> Result<String, String> {
    let dir = std::env::var("VSIM_MIRI_DIR").map(PathBuf::from).unwrap_or_else(|_| verif_dir().join("miri-lane"));
    let out = Command::new("cargo")
        .args(["+nightly", "miri", "run", "--offline", "--"])
        .args(prog_args)
        .current_dir(&dir)
        .env("MIRIFLAGS", flags)
        .env("CARGO_TARGET_DIR", std::env::var("VSIM_MIRI_TARGET").map(PathBuf::from).unwrap_or_else(|_| verif_dir().join(".target/miri")))
        .env("CARGO_NET_OFFLINE", "true")
        .env_remove("RUSTFLAGS")
        .env_remove("LD_PRELOAD")
        .output()
        .map_err(|e| format!("cannot run cargo miri: {e}"))?;
    Ok(format!("{}\n{}", String::from_utf8_lossy(&out.stdout), String::from_utf8_lossy(&out.stderr)))
}

fn classify_miri(text: &str) -> Option<(String, String)> {
    let line = |pat: &str| text.lines().find(|l| l.contains(pat)).map(|l| l.trim().to_string());
    if let Some(l) = line("Data race detected") {
        return Some(("race".into(), l));
    }
    if let Some(l) = line("C17 violated under Miri") {
        return Some(("result".into(), l));
    }
    if let Some(l) = line("error: Undefined Behavior").or_else(|| line("error: unsupported operation")).or_else(|| line("panicked at")) {
        return Some(("other".into(), l));
    }
    None
}

fn miri_lane(seeds_per_scenario: u64, scenarios: &[usize], gen_base: u64) -> MiriOutcome {
    // two scenarios at a time (each runs its seeds in parallel inside Miri already)
    let start = Instant::now();
    let mut total = MiriOutcome { gen_args: BTreeMap::new(), ok_runs: 0, failures: vec![], unavailable: None, wall_s: 0.0 };
    for pair in scenarios.chunks(2) {
        let hs: Vec<_> = pair.iter().map(|&sc| std::thread::spawn(move || miri_lane_seq(seeds_per_scenario, &[sc], gen_base))).collect();
        for h in hs {
            if let Ok(o) = h.join() {
                total.gen_args.extend(o.gen_args);
                total.ok_runs += o.ok_runs;
                total.failures.extend(o.failures);
                if total.unavailable.is_none() {
                    total.unavailable = o.unavailable;
                }
            }
        }
    }
    total.wall_s = start.elapsed().as_secs_f64();
    total
}

fn miri_lane_seq(seeds_per_scenario: u64, scenarios: &[usize], gen_base: u64) -> MiriOutcome {
    let start = Instant::now();
    let mut o = MiriOutcome { gen_args: BTreeMap::new(), ok_runs: 0, failures: vec![], unavailable: None, wall_s: 0.0 };
    for &sc in scenarios {
        // scenarios >= 100: two small documents from the seeded generator, two widths
        let prog_args: Vec<String> = if sc >= 100 {
            let mut rng = vsim::rng::Rng::stream(mix(gen_base, sc as u64), "miri-gen");
            let mut docs: Vec<String> = Vec::new();
            let mut k = 0u64;
            while docs.len() < 2 && k < 200 {
                k += 1;
                let sd = mix(gen_base ^ sc as u64, k);
                let d = vsim::gen::DocGen::new(sd, sd).with_loose(0.5).document(rng.range(1, 3));
                if d.len() <= 220 && d.is_ascii() && !vsim::oracle::is_erroneous(&d) {
                    docs.push(d);
                }
            }
            if docs.len() < 2 {
                continue;
            }
            let w = [*rng.pick(vsim::coresim::workload::WIDTHS), *rng.pick(vsim::coresim::workload::WIDTHS)];
            let a = vec!["gen".to_string(), docs[0].clone(), docs[1].clone(), w[0].to_string(), w[1].to_string()];
            o.gen_args.insert(sc, a.clone());
            a
        } else {
            vec![sc.to_string()]
        };
        let seeds = if sc >= 100 { (seeds_per_scenario / 4).max(4) } else { seeds_per_scenario };
        let text = match run_miri_args(&prog_args, &miri_flags(&format!("-Zmiri-many-seeds=0..{}", seeds))) {
            Ok(t) => t,
            Err(e) => {
                o.unavailable = Some(e);
                break;
            }
        };
        let ok = text.lines().filter(|l| l.contains("miri-lane scenario") && l.trim_end().ends_with("ok")).count() as u64;
        let _ = seeds;
        o.ok_runs += ok;
        let failing_seed = text.lines().find_map(|l| l.trim().strip_prefix("FAILING SEED: ").and_then(|x| x.trim().parse::<u64>().ok()));
        match (failing_seed, classify_miri(&text)) {
            (Some(seed), Some((kind, ex))) => o.failures.push((sc, seed, kind, ex)),
            (Some(seed), None) => o.failures.push((sc, seed, "other".into(), "unclassified Miri failure".into())),
            (None, _) if ok == 0 => {
                o.unavailable = Some(format!("the Miri lane produced no result for scenario {} (build problem?): {}", sc, vsim::util::excerpt(text.lines().filter(|l| l.starts_with("error")).collect::<Vec<_>>().join(" | ").as_bytes(), 300)));
                break;
            }
            _ => {}
        }
    }
    o.wall_s = start.elapsed().as_secs_f64();
    o
}

fn cmd_run(args: &[String]) -> i32 {
    let tier = arg_value(args, "--tier").unwrap_or_else(|| std::env::var("VERIF_TIER").unwrap_or_else(|_| "quick".into()));
    let base = vsim::util::env_u64("VERIF_SEED").unwrap_or(DEFAULT_SEED);
    let workers: u64 = arg_value(args, "--workers").and_then(|x| x.parse().ok()).unwrap_or(16);
    let (def_runs, def_secs) = if tier == "thorough" { (3_000_000u64, 600u64) } else { (60_000u64, 45u64) };
    let runs: u64 = arg_value(args, "--runs").and_then(|x| x.parse().ok()).unwrap_or(def_runs);
    let max_secs: u64 = arg_value(args, "--max-seconds").and_then(|x| x.parse().ok()).unwrap_or(def_secs);
    println!("coresim: property=C17 tier={} VERIF_SEED={} runs<={} workers={} wall<={}s", tier, base, runs, workers, max_secs);
    let start = Instant::now();
    let b = run_batch(base, runs, workers, max_secs);
    let explore_wall = start.elapsed().as_secs_f64();

    // ---- triage: one minimised replay per invariant
    let mut groups: BTreeMap<String, Vec<FoundMsg>> = BTreeMap::new();
    for f in b.found {
        groups.entry(f.violation.invariant.clone()).or_default().push(f);
    }
    let mut violations = 0;
    let mut reported: Vec<serde_json::Value> = Vec::new();
    let exe = std::env::current_exe().unwrap();
    for (invariant, fs) in &groups {
        let f = fs.iter().min_by_key(|f| serde_json::to_string(&f.scenario).map(|s| s.len()).unwrap_or(0)).unwrap();
        let mut fx = FreshExec { exe: exe.clone(), shim: shim_path(), runs: 0 };
        let mut sh = Shrinker17 { fx: &mut fx, invariant: invariant.clone(), budget: 400 };
        let shrunk = if invariant == "V17.9-hang" {
            // (not minimised: every attempt that still hangs costs the whole hang timeout)
            Some((f.scenario.clone(), f.prefix_seeds.clone(), ExecAnswer { violations: vec![f.violation.clone()], result_digest: 0, log_digest: 0, decisions: vec![], hung: true, takeovers: 0 }))
        } else {
            sh.shrink(&f.scenario, &f.prefix_seeds)
        };
        let (sc, prefix, v, digest, note) = match shrunk {
            Some((sc, prefix, ans)) => {
                let v = ans.violations.iter().find(|v| v.invariant == *invariant).cloned().unwrap_or(f.violation.clone());
                (sc, prefix, v, ans.result_digest, format!("minimised in {} fresh-process executions from run index {} (seed {})", fx.runs, f.index, f.scenario.seed))
            }
            None => (f.scenario.clone(), f.prefix_seeds.clone(), f.violation.clone(), 0, "did not reproduce in a fresh process even with the worker's whole history; original scenario recorded (possible real-time dependence)".to_string()),
        };
        let dir = verif_dir().join("replays");
        let _ = std::fs::create_dir_all(&dir);
        let path = dir.join(format!("C17-{}-{}.json", invariant, sc.seed));
        let rp = Replay17 { engine: "coresim".into(), property: "C17".into(), scenario: sc.clone(), prefix_seeds: prefix.clone(), violation: v.clone(), result_digest: digest, note };
        let _ = std::fs::write(&path, serde_json::to_string_pretty(&rp).unwrap());
        violations += 1;
        println!("VIOLATION property=C17 replay={}", path.display());
        println!("  invariant {}: {}", v.invariant, v.message);
        println!("  seed={} threads={} calls={} prefix_runs={} ({} failing runs in this group)", sc.seed, sc.threads.len(), sc.threads.iter().map(|t| t.len()).sum::<usize>(), prefix.len(), fs.len());
        reported.push(json!({"invariant": v.invariant, "message": v.message, "replay": path}));
    }

    // ---- lane B2-cli: the same (text, config) through the real CLI in two different worlds
    let cli_pairs: u64 = arg_value(args, "--cli-pairs").and_then(|x| x.parse().ok()).unwrap_or(if tier == "thorough" { 200_000 } else { 8_000 });
    let cl = cli_worlds_lane(base, cli_pairs, workers as usize);
    if let Some(r) = &cl.found {
        let dir = verif_dir().join("replays");
        let _ = std::fs::create_dir_all(&dir);
        let path = dir.join(format!("C17-V17.6-cli-worlds-{}.json", vsim::rng::fnv(serde_json::to_string(r).unwrap_or_default().as_bytes())));
        let _ = std::fs::write(&path, serde_json::to_string_pretty(r).unwrap());
        violations += 1;
        println!("VIOLATION property=C17 replay={}", path.display());
        println!("  invariant V17.6-cli-worlds ({}): {}", r.mode, r.message);
        println!("  argv: typstyle {}", r.world_b.argv("{ROOT}").join(" "));
        reported.push(json!({"invariant": "V17.6-cli-worlds", "message": r.message, "replay": path}));
    }
    let cli_json = json!({"process_pairs_compared": cl.pairs, "batch_vs_one_process_per_file_compared": cl.batch_pairs, "stale_HOME_vs_fresh_HOME_compared": cl.home_pairs, "benign_fault_rules_in_world_B": cl.faults_in_b, "errors": cl.errors.iter().take(5).collect::<Vec<_>>(),
        "note": "same tree, same argv; world A: no fault, sorted directories, empty environment; world B: short reads/writes, EINTR, clock jumps, other randomness, environment variables; stdout bytes and exit status must be identical"});

    // ---- lane B4: a long-lived single-threaded process
    let soak_calls: u64 = arg_value(args, "--soak-calls").and_then(|x| x.parse().ok()).unwrap_or(if tier == "thorough" { 2_000_000 } else { 150_000 });
    let mut soak_json = json!({"run": false});
    if soak_calls > 0 {
        match run_soak(soak_calls) {
            Some(r) => {
                if let Some((k, msg)) = &r.failure {
                    let dir = verif_dir().join("replays");
                    let _ = std::fs::create_dir_all(&dir);
                    let path = dir.join(format!("C17-V17.7-soak-call{}.json", k));
                    let rp = SoakReplay { engine: "soak".into(), property: "C17".into(), calls: k + 1, failing_call: *k, message: msg.clone() };
                    let _ = std::fs::write(&path, serde_json::to_string_pretty(&rp).unwrap());
                    violations += 1;
                    println!("VIOLATION property=C17 replay={}", path.display());
                    println!("  invariant V17.7-soak: {}", msg);
                    reported.push(json!({"invariant": "V17.7-soak", "message": msg, "replay": path}));
                }
                soak_json = json!({"run": true, "calls_in_one_process": r.calls, "failure": r.failure, "note": "single thread, tiny documents drawn pseudo-randomly (ordinary ones, rare attribute-writing twins, frequent attribute-free twins of the same tree shape) x 3 widths x 3 entry points; every result compared with the first result for the same arguments"});
            }
            None => eprintln!("WARNING: the soak lane produced no result"),
        }
    }

    // ---- lane B5: the caller's stack
    let mut headroom_json = json!({"run": false});
    if !args.iter().any(|a| a == "--no-headroom") {
        let h = headroom_lane(tier == "thorough");
        if let Some(r) = &h.found {
            let dir = verif_dir().join("replays");
            let _ = std::fs::create_dir_all(&dir);
            let path = dir.join(format!("C17-V17.8-headroom-f{}-d{}-s{}.json", r.family, r.depth, r.stack_kib));
            let _ = std::fs::write(&path, serde_json::to_string_pretty(r).unwrap());
            violations += 1;
            println!("VIOLATION property=C17 replay={}", path.display());
            println!("  invariant V17.8-headroom: {}", r.message);
            reported.push(json!({"invariant": "V17.8-headroom", "message": r.message, "replay": path}));
        }
        if let Some(e) = &h.error {
            eprintln!("WARNING: the stack head-room lane stopped early: {e}");
        }
        headroom_json = json!({"run": true, "comparisons_small_stack_vs_256MiB": h.comparisons, "depth_limits_found": h.limits, "error": h.error,
            "note": "families of nested documents (calls, arrays, content blocks, dictionaries, math, code blocks); per family and stack size (256 KiB .. 1 MiB; thorough: 192 KiB .. 2 MiB) the nesting depth at which the single call dies is bisected in fresh processes, and at 50/70/85/93 % of it the result on the small stack is compared with the result on a 256 MiB stack"});
    }

    // ---- lane B3 (thorough tier, or on request): Miri many-seeds
    // quick: only the scenario with concurrent calls under different configurations (the one place
    // where a race inside code that has no hook point can hide), 16 seeds; thorough: all four
    // scenarios, 32 seeds each
    let miri_seeds: u64 = arg_value(args, "--miri-seeds").and_then(|x| x.parse().ok()).unwrap_or(if tier == "thorough" { 32 } else { 12 });
    let miri_scenarios: Vec<usize> = if tier == "thorough" { vec![0, 1, 2, 3, 4, 100, 101, 102, 103, 104, 105, 106, 107] } else { vec![3, 4] };
    let mut miri_json = json!({"run": false, "note": "lane B3 switched off (--miri-seeds 0)"});
    if miri_seeds > 0 {
        let m = miri_lane(miri_seeds, &miri_scenarios, base);
        let mut m_reported = Vec::new();
        for (sc, seed, kind, ex) in &m.failures {
            if kind == "other" {
                continue; // UB or a panic that is neither a data race nor a result mismatch: not C17's verdict
            }
            let dir = verif_dir().join("replays");
            let _ = std::fs::create_dir_all(&dir);
            let path = dir.join(format!("C17-V17.5-miri-{}-s{}-seed{}.json", kind, sc, seed));
            let rp = MiriReplay { engine: "miri".into(), property: "C17".into(), gen_args: m.gen_args.get(sc).cloned().unwrap_or_default(), scenario: *sc, miri_seed: *seed, kind: kind.clone(), excerpt: ex.clone() };
            let _ = std::fs::write(&path, serde_json::to_string_pretty(&rp).unwrap());
            violations += 1;
            println!("VIOLATION property=C17 replay={}", path.display());
            println!("  invariant V17.5-miri-{}: scenario {} under Miri seed {}: {}", kind, sc, seed, ex);
            m_reported.push(json!({"scenario": sc, "miri_seed": seed, "kind": kind, "excerpt": ex}));
        }
        if let Some(u) = &m.unavailable {
            eprintln!("WARNING: Miri lane unavailable: {}", u);
        }
        miri_json = json!({
            "run": true,
            "seeds_per_scenario": miri_seeds,
            "scenarios": miri_scenarios,
            "executions_ok": m.ok_runs,
            "failures_reported": m_reported,
            "other_miri_findings(not a C17 verdict)": m.failures.iter().filter(|f| f.2 == "other").map(|f| format!("scenario {} seed {}: {}", f.0, f.1, f.3)).collect::<Vec<_>>(),
            "unavailable": m.unavailable,
            "flags": miri_flags("-Zmiri-many-seeds=0..N"),
            "wall_s": m.wall_s,
        });
    }

    let wall = start.elapsed().as_secs_f64();
    let st = &b.stats;
    let ev = json!({
        "property_id": "C17",
        "tier": tier,
        "seed": base,
        "level": "exploration",
        "wall_s": wall,
        "violations": violations,
        "coverage": {
            "evaluations": st.runs,
            "distinct_nontrivial": st.nontrivial.len(),
            "rule": "one evaluation = one simulated run: K real threads with scripts of library calls executed under the seeded baton scheduler (one PRNG decides every context switch and abandon fault), every returned result compared with fresh single-call processes in two worlds; non-trivial = at least two calls and at least one context switch that landed inside another call; distinct = distinct run seeds among those",
            "samples": b.samples,
            "runs_per_hour": if explore_wall > 0.0 { (st.runs as f64 / explore_wall * 3600.0) as u64 } else { 0 },
            "seeds": {"base": base, "derivation": "seed_i = mix(base, i)", "runs": st.runs},
            "simulated_time": {"scheduler_steps": st.yields, "note": "the library has no timers; simulated time is the number of scheduling points (hook points + call boundaries) the scheduler decided"},
            "calls": st.calls,
            "calls_compared_with_reference": st.calls_compared,
            "fault_kinds_fired": {
                "preemption(context switch)": st.switches,
                "preemption inside another call": st.switches_inside_call,
                "abandon(unwind) fired": st.abandons_fired,
                "abandon planned": st.abandons_planned,
            },
            "reach_probes": {
                "calls completed after an abandoned call": st.calls_completed_after_an_abandon,
                "runs where two threads were inside a call on the same shared Source at once": st.runs_with_same_source_overlap,
                "runs with shape-twin documents (colliding spans, different attributes)": st.runs_with_twins,
                "back-to-back same text, other config": st.back_to_back_same_text_other_config,
                "back-to-back identical call": st.back_to_back_identical,
                "max threads simultaneously inside a call": st.max_concurrent_in_call,
            },
            "distinct_interleavings": st.interleavings.len(),
            "distinct_interleavings_measure": "distinct digests of the context-switch sequence (yield index, from, to) per run seed",
            "policies": st.policies,
            "operations": st.ops,
            "threads_per_run": st.threads_hist,
            "references": {"computed_in_fresh_processes": st.refs_computed, "single_calls_that_panic_on_their_own(skipped)": st.ref_panics, "comparisons_skipped_for_that_reason": st.skipped_ref_panic},
            "determinism": {"seeds_rerun_in_process": st.rerun_checked, "schedule_log_mismatches": st.rerun_log_mismatch, "baton_takeovers(real lock suspected)": st.takeovers},
            "observations": {"calls_whose_step_count_differs_between_two_executions": st.step_count_differs_from_solo, "hangs_in_runs_with_a_nested_call(non-re-entrant library: no verdict)": st.hangs_in_runs_with_nested_calls},
            "reported": reported,
            "lane_B2_cli_separate_processes": cli_json,
            "lane_B3_miri": miri_json,
            "lane_B4_long_lived_process": soak_json,
            "lane_B5_callers_stack": headroom_json,
            "harness_errors": st.errors.iter().chain(b.worker_failures.iter()).take(10).collect::<Vec<_>>(),
            "real_vs_stub": {
                "real": ["typstyle-core and typst-syntax from /repo (built with --cfg typstyle_verif)", "OS threads, thread-locals, allocator, atomics"],
                "simulated": ["which thread runs between two hook points (seeded scheduler)", "abandon (unwind) of a call at a hook point", "OS randomness and clock (interposer, reseeded per run)", "process worlds for references (env, cwd, ASLR, thread, randomness)"],
                "stub": ["none: the sequential specification is the code itself run alone in a fresh process"]
            }
        },
        "assumptions": [
            "code between two hook points (parsing in typst-syntax, rendering in the pretty crate) is atomic for this lane; the Miri lane (thorough) has no such limit",
            "a reference is a fresh fork of a pristine single-threaded server process that never called the library",
            "sampling, not proof"
        ]
    });
    let evpath = arg_value(args, "--evidence").map(PathBuf::from).unwrap_or_else(|| verif_dir().join("evidence/C17.json"));
    let _ = std::fs::create_dir_all(evpath.parent().unwrap());
    let _ = std::fs::write(&evpath, serde_json::to_string_pretty(&ev).unwrap());
    println!(
        "coresim: {} runs, {} calls ({} compared), {} switches ({} inside calls), {} abandons fired, {} distinct interleavings, {:.1}s; evidence {}",
        st.runs,
        st.calls,
        st.calls_compared,
        st.switches,
        st.switches_inside_call,
        st.abandons_fired,
        st.interleavings.len(),
        wall,
        evpath.display()
    );
    let harness_bad = !st.errors.is_empty() || !b.worker_failures.is_empty() || st.runs == 0 || !cl.errors.is_empty();
    for e in cl.errors.iter().take(5) {
        eprintln!("HARNESS-ERROR: CLI lane: {}", e);
    }
    if harness_bad {
        for e in st.errors.iter().chain(b.worker_failures.iter()).take(10) {
            eprintln!("HARNESS-ERROR: {}", e);
        }
    }
    if violations > 0 {
        1
    } else if harness_bad {
        2
    } else {
        0
    }
}

fn cmd_replay(args: &[String]) -> i32 {
    let Some(path) = args.first() else { return 2 };
    let Ok(text) = std::fs::read_to_string(path) else {
        eprintln!("cannot read {path}");
        return 2;
    };
    if let Ok(sr) = serde_json::from_str::<SoakReplay>(&text) {
        if sr.engine == "soak" {
            return match run_soak(sr.calls) {
                Some(SoakResult { failure: Some((k, msg)), .. }) => {
                    println!("VIOLATION property=C17 replay={}", path);
                    println!("  invariant V17.7-soak: {}", msg);
                    println!("  failing call #{} (recorded #{}): {}", k, sr.failing_call, if k == sr.failing_call { "exact replay" } else { "DIFFERS" });
                    1
                }
                Some(_) => {
                    println!("replay: the recorded violation (V17.7-soak) did not reproduce on this tree");
                    0
                }
                None => {
                    eprintln!("HARNESS-ERROR: the soak process did not answer");
                    2
                }
            };
        }
    }
    if let Ok(hr) = serde_json::from_str::<HeadroomReplay>(&text) {
        if hr.engine == "headroom" {
            let exe = std::env::current_exe().unwrap();
            let r = vsim::coresim::refproc::RefClient::spawn(&exe, &shim_path(), false, 7).and_then(|mut c| headroom_compare(&mut c, hr.family, hr.depth, hr.stack_kib, hr.cfg));
            return match r {
                Ok(Some(msg)) => {
                    println!("VIOLATION property=C17 replay={}", path);
                    println!("  invariant V17.8-headroom: {}", msg);
                    println!("  {}", if msg == hr.message { "exact replay" } else { "DIFFERS from the recorded message" });
                    1
                }
                Ok(None) => {
                    println!("replay: the recorded violation (V17.8-headroom) did not reproduce on this tree");
                    0
                }
                Err(e) => {
                    eprintln!("HARNESS-ERROR: {e}");
                    2
                }
            };
        }
    }
    if let Ok(cr) = serde_json::from_str::<CliWorldsReplay>(&text) {
        if cr.engine == "cliworlds" {
            let env = cli_env(7777);
            let r = cli_replay_differs(&env, &cr);
            let _ = std::fs::remove_dir_all(&env.base);
            return match r {
                Ok(Some(msg)) => {
                    println!("VIOLATION property=C17 replay={}", path);
                    println!("  invariant V17.6-cli-worlds: {}", msg);
                    1
                }
                Ok(None) => {
                    println!("replay: the recorded violation (V17.6-cli-worlds) did not reproduce on this tree");
                    0
                }
                Err(e) => {
                    eprintln!("HARNESS-ERROR: {e}");
                    2
                }
            };
        }
    }
    if let Ok(mr) = serde_json::from_str::<MiriReplay>(&text) {
        if mr.engine == "miri" {
            let pa = if mr.gen_args.is_empty() { vec![mr.scenario.to_string()] } else { mr.gen_args.clone() };
            return match run_miri_args(&pa, &miri_flags(&format!("-Zmiri-seed={}", mr.miri_seed))) {
                Ok(t) => match classify_miri(&t) {
                    Some((kind, ex)) if kind != "other" => {
                        println!("VIOLATION property=C17 replay={}", path);
                        println!("  invariant V17.5-miri-{}: {}", kind, ex);
                        1
                    }
                    _ => {
                        println!("replay: the recorded Miri failure did not reproduce on this tree");
                        0
                    }
                },
                Err(e) => {
                    eprintln!("HARNESS-ERROR: {e}");
                    2
                }
            };
        }
    }
    let rp: Replay17 = match serde_json::from_str(&text) {
        Ok(r) => r,
        Err(e) => {
            eprintln!("bad replay file: {e}");
            return 2;
        }
    };
    let mut fx = FreshExec { exe: std::env::current_exe().unwrap(), shim: shim_path(), runs: 0 };
    let Some(ans) = fx.exec(&ExecRequest { scenario: rp.scenario.clone(), prefix_seeds: rp.prefix_seeds.clone() }) else {
        eprintln!("HARNESS-ERROR: the fresh process did not answer");
        return 2;
    };
    match ans.violations.iter().find(|v| v.invariant == rp.violation.invariant) {
        Some(v) => {
            println!("VIOLATION property=C17 replay={}", path);
            println!("  invariant {}: {}", v.invariant, v.message);
            println!("  result digest {:016x} (recorded {:016x}): {}", ans.result_digest, rp.result_digest, if ans.result_digest == rp.result_digest { "exact replay" } else { "DIFFERS" });
            1
        }
        None => {
            println!("replay: the recorded violation ({}) did not reproduce on this tree", rp.violation.invariant);
            0
        }
    }
}

/// determinism proof: the same seeds in 16, 1 and 5 worker processes; per-seed result and
/// schedule-log digests must agree
fn cmd_selftest(args: &[String]) -> i32 {
    let n: u64 = arg_value(args, "--cases").and_then(|x| x.parse().ok()).unwrap_or(600);
    let base = vsim::util::env_u64("VERIF_SEED").unwrap_or(DEFAULT_SEED) ^ 0x17;
    let exe = std::env::current_exe().unwrap();
    let run = |workers: u64| -> BTreeMap<u64, String> {
        let mut out = BTreeMap::new();
        let per = n.div_ceil(workers);
        let mut cs = Vec::new();
        for w in 0..workers {
            let c = Command::new(&exe)
                .args(["digests", "--base-seed", &base.to_string(), "--from", &w.to_string(), "--step", &workers.to_string(), "--count", &per.to_string()])
                .env("LD_PRELOAD", shim_path())
                .env("VSIM_SEED", base.to_string())
                .stdout(Stdio::piped())
                .spawn();
            if let Ok(c) = c {
                cs.push(c);
            }
        }
        for c in cs {
            if let Ok(o) = c.wait_with_output() {
                for line in String::from_utf8_lossy(&o.stdout).lines() {
                    if let Some((i, d)) = line.split_once(' ') {
                        if let Ok(i) = i.parse::<u64>() {
                            if i < n {
                                out.insert(i, d.to_string());
                            }
                        }
                    }
                }
            }
        }
        out
    };
    let a = run(16);
    let b = run(1);
    let c = run(5);
    let mut bad = 0;
    for (i, d) in &a {
        if b.get(i) != Some(d) || c.get(i) != Some(d) {
            bad += 1;
            if bad <= 5 {
                eprintln!("selftest: run index {} diverged: {} / {:?} / {:?}", i, d, b.get(i), c.get(i));
            }
        }
    }
    println!("coresim selftest: {} seeds x 3 executions (16, 1 and 5 worker processes): {} divergences", a.len(), bad);
    if bad > 0 || a.len() as u64 != n {
        2
    } else {
        0
    }
}

fn cmd_digests(args: &[String]) -> i32 {
    vsim::oracle::silence_panics();
    let base: u64 = arg_value(args, "--base-seed").and_then(|x| x.parse().ok()).unwrap_or(DEFAULT_SEED);
    let from: u64 = arg_value(args, "--from").and_then(|x| x.parse().ok()).unwrap_or(0);
    let step: u64 = arg_value(args, "--step").and_then(|x| x.parse().ok()).unwrap_or(1);
    let count: u64 = arg_value(args, "--count").and_then(|x| x.parse().ok()).unwrap_or(10);
    let fixtures = load_fixtures();
    for j in 0..count {
        let i = from + j * step;
        let sc = gen_scenario(mix(base, i), &fixtures);
        let out = run_scenario(&sc);
        println!("{} {:016x}-{:016x}-{:016x}-{}", i, results_digest(&out.results), out.stats.log_digest, out.stats.switch_digest, out.stats.takeovers);
    }
    0
}

fn main() {
    // everything runs on a thread with a big stack: the oracle formats very deeply nested documents
    let h = std::thread::Builder::new().stack_size(512 << 20).spawn(real_main).expect("spawn main");
    let _ = h.join();
}

fn real_main() {
    let args: Vec<String> = std::env::args().skip(1).collect();
    let code = match args.first().map(|s| s.as_str()) {
        Some("run") => cmd_run(&args[1..]),
        Some("worker") => cmd_worker(&args[1..]),
        Some("refserver") => refproc::serve(args.get(1).map(|s| s == "B").unwrap_or(false)),
        Some("exec") => cmd_exec(),
        Some("replay") => cmd_replay(&args[1..]),
        Some("selftest") => cmd_selftest(&args[1..]),
        Some("digests") => cmd_digests(&args[1..]),
        Some("soak") => cmd_soak(&args[1..]),
        _ => {
            eprintln!("usage: coresim run|replay|selftest ...");
            2
        }
    };
    std::process::exit(code);
}
