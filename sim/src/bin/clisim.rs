#![recursion_limit = "256"]
//! Engine A driver: seeded batches of simulated CLI histories for C14 / C15 / C16.
//!
//!   clisim run --property C14 --tier quick [--cases N] [--workers N] [--max-seconds S]
//!   clisim replay <file>
//!   clisim selftest [--cases N]
//!   clisim one --seed N --profile hard --focus C15      (verbose single case)
//!
//! Environment: VERIF_SEED (base seed), VSIM_BIN (typstyle binary), VSIM_SHIM (shim.so),
//! VERIF_DIR (/verif). Exit: 0 held, 1 violation, 2 harness error.

use std::collections::BTreeMap;
use std::path::{Path, PathBuf};
use std::sync::atomic::{AtomicBool, AtomicU64, Ordering};
use std::sync::{Arc, Mutex};
use std::time::Instant;

use serde_json::json;
use vsim::clisim::exec::{run_case, PlanCtx, RunResult, Stats};
use vsim::clisim::run::Env;
use vsim::clisim::shrink::Shrinker;
use vsim::clisim::types::*;
use vsim::clisim::workload::{gen_case, Focus, GenParams};
use vsim::oracle::{self, Oracle};
use vsim::rng::{mix, Rng};

const DEFAULT_SEED: u64 = 20260926;

fn arg_value(args: &[String], name: &str) -> Option<String> {
    args.iter().position(|a| a == name).and_then(|i| args.get(i + 1).cloned())
}

fn verif_dir() -> PathBuf {
    PathBuf::from(std::env::var("VERIF_DIR").unwrap_or_else(|_| "/verif".into()))
}

fn base_env(worker: usize) -> Env {
    let v = verif_dir();
    let bin = std::env::var("VSIM_BIN").map(PathBuf::from).unwrap_or_else(|_| v.join(".target/cli/debug/typstyle"));
    let shim = std::env::var("VSIM_SHIM").map(PathBuf::from).unwrap_or_else(|_| v.join(".target/shim.so"));
    // (./check exports VSIM_BIN and VSIM_SHIM; the defaults are for running the binary by hand)
    let scratch = if Path::new("/dev/shm").is_dir() { PathBuf::from("/dev/shm") } else { std::env::temp_dir() };
    let base = scratch.join(format!("typstyle-verif-{:07}", std::process::id())).join(format!("k{:05}", worker));
    Env { bin, shim, base }
}

fn cleanup_scratch() {
    let scratch = if Path::new("/dev/shm").is_dir() { PathBuf::from("/dev/shm") } else { std::env::temp_dir() };
    let _ = std::fs::remove_dir_all(scratch.join(format!("typstyle-verif-{:07}", std::process::id())));
}

fn load_fixtures() -> Vec<String> {
    let root = std::env::var("VSIM_FIXTURES").unwrap_or_else(|_| "/repo/tests/fixtures".into());
    let mut files: Vec<PathBuf> = Vec::new();
    fn rec(p: &Path, out: &mut Vec<PathBuf>) {
        let Ok(rd) = std::fs::read_dir(p) else { return };
        for e in rd.flatten() {
            let path = e.path();
            if path.is_dir() {
                rec(&path, out);
            } else if path.extension().map(|x| x == "typ").unwrap_or(false) {
                out.push(path);
            }
        }
    }
    rec(Path::new(&root), &mut files);
    files.sort();
    let mut v = Vec::new();
    for f in files {
        if let Ok(s) = std::fs::read_to_string(&f) {
            if s.len() <= 6000 && !s.is_empty() {
                v.push(s);
            }
        }
    }
    v
}

fn profile_for(i: u64) -> &'static str {
    match i % 10 {
        0..=2 => "nofault",
        3..=5 => "benign",
        _ => "hard",
    }
}

#[derive(Clone)]
struct KnownFinding {
    status: String,
    property: String,
    key: String,
    what: String,
}

fn load_known() -> Vec<KnownFinding> {
    let p = verif_dir().join("known-findings.json");
    let Ok(s) = std::fs::read_to_string(p) else { return vec![] };
    let Ok(v) = serde_json::from_str::<serde_json::Value>(&s) else { return vec![] };
    let mut out = Vec::new();
    if let Some(arr) = v.get("findings").and_then(|x| x.as_array()) {
        for f in arr {
            out.push(KnownFinding {
                status: f.get("status").and_then(|x| x.as_str()).unwrap_or("").to_string(),
                property: f.get("property").and_then(|x| x.as_str()).unwrap_or("").to_string(),
                key: f.get("key").and_then(|x| x.as_str()).unwrap_or("").to_string(),
                what: f.get("what").and_then(|x| x.as_str()).unwrap_or("").to_string(),
            });
        }
    }
    out
}

/// A specific, recognisable failing shape (used only to match *open* known findings; a
/// violation with any other key is always reported).
fn finding_key(case: &Case, v: &Violation) -> String {
    let Some(Step::Inv(inv)) = case.steps.get(v.step) else { return format!("other:{}", v.invariant) };
    if let Shape::FormatAll { dir, .. } = &inv.shape {
        // name of the walked directory as the walker sees it: the last component of DIR as typed,
        // or of the current directory when DIR is omitted
        let typed = match dir {
            Some(d) => d.clone(),
            None => inv.cwd.clone(),
        };
        let last = typed.trim_end_matches('/').rsplit('/').next().unwrap_or("").to_string();
        if last.starts_with('.') && !(dir.is_none() && inv.cwd == ".") && matches!(v.invariant.as_str(), "I14.3-exit" | "I15.1-notwritten") {
            return "format-all:walked-directory-name-starts-with-dot".into();
        }
        if v.invariant == "I14.3-exit" && v.message.contains("a walked directory could not be read") && !v.message.contains("=unformatted") && !v.message.contains("unreadable[") {
            return "format-all:directory-read-error-not-reported".into();
        }
        if matches!(v.invariant.as_str(), "I14.3-exit" | "I15.4-exit") && v.message.contains("unreadable[") {
            return "format-all:unreadable-eligible-file-not-reported".into();
        }
    }
    format!("other:{}", v.invariant)
}

struct Found {
    case: Case,
    violation: Violation,
}

fn explore_one(env: &Env, oracle: &mut Oracle, params: &GenParams, seed: u64, profile: &str, stats: &mut Stats) -> RunResult {
    let case = gen_case(seed, profile, params, oracle);
    let mut frng = Rng::stream(seed, "faults");
    run_case(env, &case, oracle, Some(PlanCtx { rng: &mut frng, profile }), stats)
}

fn write_replay(property: &str, case: &Case, v: &Violation, digest: u64, note: &str) -> PathBuf {
    let dir = verif_dir().join("replays");
    let _ = std::fs::create_dir_all(&dir);
    let path = dir.join(format!("{}-{}-{}.json", property, v.invariant, case.seed));
    let r = Replay { engine: "clisim".into(), case: case.clone(), violation: v.clone(), log_digest: digest, note: note.into() };
    let _ = std::fs::write(&path, serde_json::to_string_pretty(&r).unwrap());
    path
}


/// I16.4 - no simulation involved: a plain differential of the width-only convenience function
/// (what the wasm export wraps) against the library, over the same corpus.
#[derive(serde::Serialize, serde::Deserialize, Clone, Debug)]
struct HelperReplay {
    engine: String,
    text: vsim::util::Bytes,
    width: usize,
    violation: Violation,
}

fn helper_check(text: &str, width: usize) -> Option<String> {
    let cfg = vsim::oracle::Cfg { column: width, ..Default::default() };
    let want = match vsim::oracle::fmt_uncached(text, cfg) {
        vsim::oracle::Fmt::Ok(s) => s,
        vsim::oracle::Fmt::Erroneous => text.to_string(),
        vsim::oracle::Fmt::Panic => return None,
    };
    let got = std::panic::catch_unwind(|| typstyle_core::format_with_width(text, width)).ok()?;
    if got != want {
        let d = vsim::util::first_diff(got.as_bytes(), want.as_bytes());
        return Some(format!(
            "format_with_width(text, {}) differs from the library result (or, for erroneous input, from the input): first difference at byte {} (have {:?}, want {:?})",
            width,
            d,
            vsim::util::excerpt(&got.as_bytes()[d.min(got.len())..], 40),
            vsim::util::excerpt(&want.as_bytes()[d.min(want.len())..], 40)
        ));
    }
    // ... and once more on its own result, as a playground does when the user presses "format"
    // twice: the second answer has to be the library's answer for *that* text (which is not
    // always the same text again: one pass is not a fixed point on every document)
    let want2 = match vsim::oracle::fmt_uncached(&got, cfg) {
        vsim::oracle::Fmt::Ok(s) => s,
        vsim::oracle::Fmt::Erroneous => got.clone(),
        vsim::oracle::Fmt::Panic => return None,
    };
    let got2 = std::panic::catch_unwind(|| typstyle_core::format_with_width(&got, width)).ok()?;
    if got2 != want2 {
        let d = vsim::util::first_diff(got2.as_bytes(), want2.as_bytes());
        return Some(format!(
            "format_with_width applied to its own result (width {}) differs from the library result for that text: first difference at byte {} (have {:?}, want {:?})",
            width,
            d,
            vsim::util::excerpt(&got2.as_bytes()[d.min(got2.len())..], 40),
            vsim::util::excerpt(&want2.as_bytes()[d.min(want2.len())..], 40)
        ));
    }
    None
}

fn helper_lane(params: &GenParams, base_seed: u64, n: u64) -> (u64, u64, Vec<(String, usize, String)>) {
    let mut oracle = Oracle::new();
    let mut evals = 0u64;
    let mut erroneous = 0u64;
    let mut bad = Vec::new();
    for i in 0..n {
        let seed = mix(base_seed ^ 0x164, i);
        let mut docs = vsim::clisim::workload::Docs { rng: Rng::stream(seed, "helper"), oracle: &mut oracle, params, main_cfg: Default::default(), counter: 0, seed };
        let b = docs.content();
        let Some(text) = b.as_str() else { continue };
        if text.len() > 30_000 {
            continue;
        }
        let mut rng = Rng::stream(seed, "helper-width");
        for _ in 0..3 {
            let w = if rng.chance(0.5) { *rng.pick(vsim::clisim::workload::special_columns()) } else { rng.range(0, 400) };
            evals += 1;
            if vsim::oracle::is_erroneous(text) {
                erroneous += 1;
            }
            if let Some(msg) = helper_check(text, w) {
                if bad.len() < 20 {
                    bad.push((text.to_string(), w, msg));
                }
            }
        }
    }
    (evals, erroneous, bad)
}

fn cmd_run(args: &[String]) -> i32 {
    let property = arg_value(args, "--property").unwrap_or_else(|| "C14".into());
    let tier = arg_value(args, "--tier").unwrap_or_else(|| std::env::var("VERIF_TIER").unwrap_or_else(|_| "quick".into()));
    let base_seed = vsim::util::env_u64("VERIF_SEED").unwrap_or(DEFAULT_SEED);
    let workers: usize = arg_value(args, "--workers").and_then(|x| x.parse().ok()).unwrap_or(16);
    let (def_cases, def_secs, max_large) = if tier == "thorough" { (1_500_000u64, 780u64, 1_200_000usize) } else { (30_000u64, 100u64, 140_000usize) };
    let cases: u64 = arg_value(args, "--cases").and_then(|x| x.parse().ok()).unwrap_or(def_cases);
    let max_secs: u64 = arg_value(args, "--max-seconds").and_then(|x| x.parse().ok()).unwrap_or(def_secs);
    let focus = match property.as_str() {
        "C14" => Focus::C14,
        "C15" => Focus::C15,
        "C16" => Focus::C16,
        _ => Focus::Mixed,
    };
    println!("clisim: property={} tier={} VERIF_SEED={} cases<={} workers={} wall<={}s", property, tier, base_seed, cases, workers, max_secs);
    oracle::silence_panics();
    let params = GenParams { focus, max_large, fixtures: Arc::new(load_fixtures()) };
    let known = load_known();
    let start = Instant::now();
    let next = Arc::new(AtomicU64::new(0));
    let stop = Arc::new(AtomicBool::new(false));
    let total_stats = Arc::new(Mutex::new(Stats::default()));
    let found: Arc<Mutex<Vec<Found>>> = Arc::new(Mutex::new(Vec::new()));
    let other_props: Arc<Mutex<BTreeMap<String, u64>>> = Arc::new(Mutex::new(BTreeMap::new()));
    let samples: Arc<Mutex<Vec<serde_json::Value>>> = Arc::new(Mutex::new(Vec::new()));
    let determinism: Arc<Mutex<(u64, u64)>> = Arc::new(Mutex::new((0, 0)));
    let mut handles = Vec::new();
    for w in 0..workers {
        let (next, stop, total_stats, found, other_props, samples, determinism) =
            (next.clone(), stop.clone(), total_stats.clone(), found.clone(), other_props.clone(), samples.clone(), determinism.clone());
        let params = params.clone();
        let property = property.clone();
        // (a big stack: the oracle formats documents nested more than a thousand levels deep)
        handles.push(std::thread::Builder::new().stack_size(512 << 20).spawn(move || {
            let env = base_env(w);
            let env2 = base_env(w + 1000);
            let mut oracle = Oracle::new();
            let mut stats = Stats::default();
            loop {
                if stop.load(Ordering::Relaxed) || start.elapsed().as_secs() >= max_secs {
                    break;
                }
                let i = next.fetch_add(1, Ordering::Relaxed);
                if i >= cases {
                    break;
                }
                let seed = mix(base_seed, i);
                let profile = profile_for(i);
                let t0 = Instant::now();
                // a panic of the harness itself must never pass silently (panics of the library
                // inside the oracle are caught there)
                let r = match std::panic::catch_unwind(std::panic::AssertUnwindSafe(|| explore_one(&env, &mut oracle, &params, seed, profile, &mut stats))) {
                    Ok(r) => r,
                    Err(p) => {
                        let msg = p.downcast_ref::<String>().cloned().or_else(|| p.downcast_ref::<&str>().map(|s| s.to_string())).unwrap_or_default();
                        stats.harness_errors.push(format!("seed {} (profile {}): the harness panicked: {}", seed, profile, msg));
                        oracle = Oracle::new();
                        continue;
                    }
                };
                if std::env::var_os("VSIM_SLOW").is_some() && t0.elapsed().as_millis() > 300 {
                    eprintln!("slow case: index {} seed {} profile {}: {} ms", i, seed, profile, t0.elapsed().as_millis());
                }
                if r.harness_error.is_some() {
                    continue;
                }
                // sampled determinism proof: same seed again, other directory
                if i % 50 == 7 {
                    let mut st2 = Stats::default();
                    let r2 = explore_one(&env2, &mut oracle, &params, seed, profile, &mut st2);
                    let mut d = determinism.lock().unwrap();
                    d.0 += 1;
                    if r2.log_digest() != r.log_digest() || r2.case != r.case {
                        // Not a verdict and not fatal: all oracles are state based, so the result of
                        // this run stays sound; but exact replay is no longer guaranteed (e.g. the
                        // CLI has become multi-threaded, which the interposer does not schedule).
                        d.1 += 1;
                        if d.1 <= 3 {
                            eprintln!("WARNING: seed {}: two executions of the same seed produced different event logs (is the CLI still single-threaded?)", seed);
                        }
                    }
                }
                if i < 3 || (i % 997 == 0 && samples.lock().unwrap().len() < 6) {
                    let mut s = samples.lock().unwrap();
                    s.push(sample_json(&r.case));
                }
                for v in &r.violations {
                    if v.property.split(',').any(|p| p == property) {
                        let mut f = found.lock().unwrap();
                        f.push(Found { case: r.case.clone(), violation: v.clone() });
                        if f.len() >= 40 {
                            stop.store(true, Ordering::Relaxed);
                        }
                        break;
                    } else {
                        *other_props.lock().unwrap().entry(format!("{}:{}", v.property, v.invariant)).or_default() += 1;
                    }
                }
            }
            stats.oracle_refused_well_formed = oracle.refused_well_formed;
            total_stats.lock().unwrap().merge(stats);
            let _ = std::fs::remove_dir_all(&env.base);
            let _ = std::fs::remove_dir_all(&env2.base);
        }).expect("spawn worker"));
    }
    for h in handles {
        let _ = h.join();
    }
    let explore_wall = start.elapsed().as_secs_f64();
    let stats = std::mem::take(&mut *total_stats.lock().unwrap());
    let found = std::mem::take(&mut *found.lock().unwrap());

    // ---- triage: group by (invariant, finding key), minimise one per group
    let mut groups: BTreeMap<(String, String), Vec<Found>> = BTreeMap::new();
    for f in found {
        let k = (f.violation.invariant.clone(), finding_key(&f.case, &f.violation));
        groups.entry(k).or_default().push(f);
    }
    let env = base_env(9000);
    let mut oracle = Oracle::new();
    let mut violations = 0u64;
    let mut known_hits: Vec<String> = Vec::new();
    let mut reported: Vec<serde_json::Value> = Vec::new();
    for ((invariant, key), fs) in groups.iter() {
        let open = known.iter().find(|k| k.status == "open" && k.property == property && k.key == *key);
        // smallest case first
        let f = fs.iter().min_by_key(|f| serde_json::to_string(&f.case).map(|s| s.len()).unwrap_or(0)).unwrap();
        let mut sh = Shrinker { env: &env, oracle: &mut oracle, property: property.clone(), invariant: invariant.clone(), runs: 0, budget: 600, deadline: Instant::now() + std::time::Duration::from_secs(60) };
        let min = sh.shrink(&f.case);
        let shrink_runs = sh.runs;
        // final confirmation in a fresh world, twice
        let mut st = Stats::default();
        let r1 = run_case(&env, &min, &mut oracle, None, &mut st);
        let r2 = run_case(&env, &min, &mut oracle, None, &mut st);
        let v = r1.violations.iter().find(|v| v.invariant == *invariant).cloned();
        let (case, v, digest, note) = match v {
            Some(v) if r1.log_digest() == r2.log_digest() => (min, v, r1.log_digest(), format!("minimised in {} runs from seed {}", shrink_runs, f.case.seed)),
            _ => {
                let r = run_case(&env, &f.case, &mut oracle, None, &mut st);
                (f.case.clone(), f.violation.clone(), r.log_digest(), "minimisation did not preserve the failure; original case".to_string())
            }
        };
        // the key may only become more specific after minimisation; recompute
        let key2 = finding_key(&case, &v);
        let open = open.or_else(|| known.iter().find(|k| k.status == "open" && k.property == property && k.key == key2));
        if let Some(k) = open {
            println!("KNOWN-FINDING: property={} {} [{}; {} occurrences this run]", property, k.what, k.key, fs.len());
            known_hits.push(k.key.clone());
            continue;
        }
        let path = write_replay(&property, &case, &v, digest, &note);
        violations += 1;
        println!("VIOLATION property={} replay={}", property, path.display());
        println!("  invariant {} at step {}: {}", v.invariant, v.step, v.message);
        println!("  seed={} ({} failing cases in this group; key {})", case.seed, fs.len(), key2);
        if let Some(Step::Inv(inv)) = case.steps.get(v.step) {
            println!("  argv: typstyle {}   (cwd {}, plan {:?})", vsim::util::excerpt(inv.argv("{ROOT}").join(" ").as_bytes(), 400), inv.cwd, inv.plan.iter().map(|r| r.render()).collect::<Vec<_>>());
        }
        reported.push(json!({"invariant": v.invariant, "message": v.message, "replay": path, "seed": case.seed}));
    }
    let _ = std::fs::remove_dir_all(&env.base);
    cleanup_scratch();

    // ---- I16.4: the width-only convenience function (plain differential, no simulation)
    let mut helper_json = json!(null);
    if property == "C16" {
        let n = if tier == "thorough" { 60_000 } else { 6_000 };
        let (evals, erroneous, bad) = helper_lane(&params, base_seed, n);
        // minimise the smallest failing text line-wise
        if let Some((text, w, _)) = bad.iter().min_by_key(|(t, _, _)| t.len()) {
            let mut lines: Vec<&str> = text.split_inclusive('\n').collect();
            let mut i = 0;
            while i < lines.len() && lines.len() > 1 {
                let mut cand = lines.clone();
                cand.remove(i);
                if helper_check(&cand.concat(), *w).is_some() {
                    lines = cand;
                } else {
                    i += 1;
                }
            }
            let min_text = lines.concat();
            let msg = helper_check(&min_text, *w).unwrap_or_default();
            let v = Violation { property: "C16".into(), invariant: "I16.4-width-helper".into(), step: 0, message: msg.clone() };
            let dir = verif_dir().join("replays");
            let _ = std::fs::create_dir_all(&dir);
            let path = dir.join(format!("C16-I16.4-width-helper-{}.json", vsim::rng::fnv(min_text.as_bytes())));
            let hr = HelperReplay { engine: "helper".into(), text: min_text.clone().into(), width: *w, violation: v };
            let _ = std::fs::write(&path, serde_json::to_string_pretty(&hr).unwrap());
            violations += 1;
            println!("VIOLATION property=C16 replay={}", path.display());
            println!("  invariant I16.4-width-helper: {}", msg);
            println!("  text {:?} width {} ({} failing of {} evaluations)", vsim::util::excerpt(min_text.as_bytes(), 80), w, bad.len(), evals);
            reported.push(json!({"invariant": "I16.4-width-helper", "message": msg, "replay": path}));
        }
        helper_json = json!({"evaluations": evals, "of_which_erroneous_input": erroneous, "failing": bad.len(), "note": "plain in-process differential of typstyle_core::format_with_width (wrapped by the wasm export) against Typstyle::format_content; no seam, no fault; the wasm build itself is not produced in this sandbox"});
    }

    let wall = start.elapsed().as_secs_f64();
    let det = *determinism.lock().unwrap();
    let harness_fail = !stats.harness_errors.is_empty();
    // ---- evidence
    let zero_probes: Vec<&str> = ["read-fault-on-an-input", "write-fault-between-read-and-write-of-a-target"]
        .into_iter()
        .filter(|p| !stats.probes.contains_key(*p))
        .collect();
    let ev = json!({
        "property_id": property,
        "tier": tier,
        "seed": base_seed,
        "level": "exploration",
        "wall_s": wall,
        "violations": violations,
        "coverage": {
            "evaluations": stats.invocations,
            "distinct_nontrivial": stats.nontrivial_cases.len(),
            "rule": "one evaluation = one invocation of the real typstyle binary under the libc interposer inside a generated history; a case (tree + history + fault plans) is non-trivial when at least one of its invocations has at least one input (file, stdin or eligible walked file); distinct = distinct serialised executed cases",
            "samples": *samples.lock().unwrap(),
            "cases": stats.cases,
            "edits_between_invocations": stats.edits,
            "runs_per_hour": if explore_wall > 0.0 { (stats.invocations as f64 / explore_wall * 3600.0) as u64 } else { 0 },
            "cases_per_hour": if explore_wall > 0.0 { (stats.cases as f64 / explore_wall * 3600.0) as u64 } else { 0 },
            "seeds": {"base": base_seed, "derivation": "seed_i = mix(base, i), i in [0, cases)", "first": mix(base_seed, 0), "last_index": next.load(Ordering::Relaxed).min(cases)},
            "simulated_time": {"intercepted_events": stats.events, "simulated_clock_reads": stats.sim_clock_reads, "note": "the CLI has no timers; simulated time is the event index of the interposer plus the simulated monotonic clock it serves"},
            "shapes": stats.shapes,
            "faults_fired": stats.faults_fired,
            "reach_probes": stats.probes,
            "probes_at_zero": zero_probes,
            "exit_codes": stats.exit_codes,
            "distinct_states": stats.states.len(),
            "distinct_states_measure": "distinct (shape, set of input classes, set of fired fault kinds, exit status, assertion level, #expected writes capped at 3)",
            "distinct_trace_shapes": stats.trace_shapes.len(),
            "files_compared": stats.files_compared,
            "writes_expected": stats.writes_expected,
            "oracle_unavailable": stats.oracle_unavailable,
            "observation_library_refused_a_well_formed_text(C05, not a verdict here)": stats.oracle_refused_well_formed,
            "unmodelled_invocations": stats.unmodelled,
            "determinism": {"seeds_run_twice": det.0, "log_mismatches": det.1},
            "violations_of_other_properties_seen": *other_props.lock().unwrap(),
            "known_findings_hit": known_hits,
            "I16.4_width_helper_differential": helper_json,
            "reported": reported,
            "harness_errors": stats.harness_errors.iter().take(10).collect::<Vec<_>>(),
            "real_vs_stub": {
                "real": ["typstyle binary built from /repo (main, clap, fmt.rs, logging, walkdir, std::fs/io, typstyle-core)", "kernel file system (tmpfs)", "typstyle-core from /repo as formatting oracle"],
                "simulated": ["results of open/read/write/opendir/readdir at fault points", "directory enumeration order", "monotonic clock", "OS randomness", "process crash (_exit before the n-th call)"],
                "stub": ["CLI reference model written from the property statements (sim/src/clisim/model.rs)"]
            }
        },
        "assumptions": [
            "the typstyle binary reaches the OS only through dynamically linked libc symbols (checked per invocation by the seam canary)",
            "the library linked into the harness is the same source the CLI links (both built from /repo's working tree by ./check)",
            "kernel tmpfs semantics stand in for the user's file system; no durability (fsync/torn sector) semantics are modelled"
        ]
    });
    let evdir = verif_dir().join("evidence");
    let _ = std::fs::create_dir_all(&evdir);
    let evpath = arg_value(args, "--evidence").map(PathBuf::from).unwrap_or_else(|| evdir.join(format!("{}.json", property)));
    let _ = std::fs::write(&evpath, serde_json::to_string_pretty(&ev).unwrap());
    println!(
        "clisim: {} cases, {} invocations, {} distinct states, {} fault kinds fired, determinism {}/{} ok, {:.1}s; evidence {}",
        stats.cases,
        stats.invocations,
        stats.states.len(),
        stats.faults_fired.len(),
        det.0 - det.1,
        det.0,
        wall,
        evpath.display()
    );
    if stats.oracle_refused_well_formed > 0 {
        println!("NOTE: the library returned an error for {} text(s) that the parser accepts; totality is property C05's business, the model of C14-C16 takes such a refusal as 'erroneous'", stats.oracle_refused_well_formed);
    }
    if harness_fail {
        for e in stats.harness_errors.iter().take(10) {
            eprintln!("HARNESS-ERROR: {}", e);
        }
        if violations == 0 {
            return 2;
        }
    }
    if stats.invocations == 0 {
        eprintln!("HARNESS-ERROR: nothing was executed");
        return 2;
    }
    if violations > 0 {
        1
    } else {
        0
    }
}

fn sample_json(case: &Case) -> serde_json::Value {
    let tree: Vec<String> = case
        .tree
        .iter()
        .map(|(k, n)| match n {
            Node::Dir => format!("{}/", k),
            Node::File(b) => format!("{} ({} bytes)", k, b.0.len()),
            Node::Symlink(t) => format!("{} -> {}", k, t),
        })
        .collect();
    let steps: Vec<String> = case
        .steps
        .iter()
        .map(|s| match s {
            Step::Inv(i) => format!("cwd={} env={:?} typstyle {} plan=[{}] readdir={}", i.cwd, i.env, i.argv("{ROOT}").join(" "), i.plan.iter().map(|r| r.render()).collect::<Vec<_>>().join(";"), i.readdir),
            Step::Edit(Edit::Write { path, content }) => format!("edit: write {} ({} bytes)", path, content.0.len()),
            Step::Edit(Edit::Delete { path }) => format!("edit: delete {}", path),
        })
        .collect();
    json!({"seed": case.seed, "profile": case.profile, "tree": tree, "history": steps})
}

fn cmd_replay(args: &[String]) -> i32 {
    let Some(path) = args.first() else {
        eprintln!("usage: clisim replay <file>");
        return 2;
    };
    let Ok(text) = std::fs::read_to_string(path) else {
        eprintln!("cannot read {}", path);
        return 2;
    };
    if let Ok(hr) = serde_json::from_str::<HelperReplay>(&text) {
        if hr.engine == "helper" {
            oracle::silence_panics();
            return match hr.text.as_str().and_then(|t| helper_check(t, hr.width)) {
                Some(msg) => {
                    println!("VIOLATION property=C16 replay={}", path);
                    println!("  invariant I16.4-width-helper: {}", msg);
                    1
                }
                None => {
                    println!("replay: the recorded violation (I16.4-width-helper) did not reproduce on this tree");
                    0
                }
            };
        }
    }
    let rp: Replay = match serde_json::from_str(&text) {
        Ok(r) => r,
        Err(e) => {
            eprintln!("bad replay file: {e}");
            return 2;
        }
    };
    oracle::silence_panics();
    let env = base_env(7000);
    let mut oracle = Oracle::new();
    let mut st = Stats::default();
    let r = run_case(&env, &rp.case, &mut oracle, None, &mut st);
    let _ = std::fs::remove_dir_all(&env.base);
    cleanup_scratch();
    if let Some(e) = r.harness_error {
        eprintln!("HARNESS-ERROR: {e}");
        return 2;
    }
    let prop = rp.violation.property.split(',').next().unwrap_or("").to_string();
    match r.violations.iter().find(|v| v.invariant == rp.violation.invariant) {
        Some(v) => {
            println!("VIOLATION property={} replay={}", arg_value(args, "--property").unwrap_or(prop), path);
            println!("  invariant {} at step {}: {}", v.invariant, v.step, v.message);
            println!("  log digest {:016x} (recorded {:016x}): {}", r.log_digest(), rp.log_digest, if r.log_digest() == rp.log_digest { "exact replay" } else { "DIFFERS" });
            1
        }
        None => {
            println!("replay: the recorded violation ({}) did not reproduce on this tree", rp.violation.invariant);
            for v in &r.violations {
                println!("  (other violation: {} {})", v.invariant, v.message);
            }
            0
        }
    }
}

/// Determinism proof on a large sample: every seed twice, in different worker directories,
/// at worker counts 1 and 16; any difference in the executed case or the event log is an error.
fn cmd_selftest(args: &[String]) -> i32 {
    let cases: u64 = arg_value(args, "--cases").and_then(|x| x.parse().ok()).unwrap_or(600);
    let base_seed = vsim::util::env_u64("VERIF_SEED").unwrap_or(DEFAULT_SEED);
    oracle::silence_panics();
    let params = GenParams { focus: Focus::Mixed, max_large: 70_000, fixtures: Arc::new(load_fixtures()) };
    let run_with = |workers: usize, dir_off: usize| -> BTreeMap<u64, (u64, String)> {
        let next = Arc::new(AtomicU64::new(0));
        let out: Arc<Mutex<BTreeMap<u64, (u64, String)>>> = Arc::new(Mutex::new(BTreeMap::new()));
        let mut hs = Vec::new();
        for w in 0..workers {
            let (next, out, params) = (next.clone(), out.clone(), params.clone());
            hs.push(std::thread::Builder::new().stack_size(512 << 20).spawn(move || {
                let env = base_env(dir_off + w);
                let mut oracle = Oracle::new();
                let mut st = Stats::default();
                loop {
                    let i = next.fetch_add(1, Ordering::Relaxed);
                    if i >= cases {
                        break;
                    }
                    let seed = mix(base_seed ^ 0x5e1f, i);
                    let r = explore_one(&env, &mut oracle, &params, seed, profile_for(i), &mut st);
                    let viol = r.violations.iter().map(|v| v.invariant.clone()).collect::<Vec<_>>().join(",");
                    out.lock().unwrap().insert(i, (r.log_digest() ^ vsim::rng::fnv(serde_json::to_string(&r.case).unwrap().as_bytes()), viol));
                }
                let _ = std::fs::remove_dir_all(&env.base);
            }).expect("spawn"));
        }
        for h in hs {
            let _ = h.join();
        }
        let r = out.lock().unwrap().clone();
        r
    };
    let a = run_with(16, 100);
    let b = run_with(1, 200);
    let c = run_with(5, 300);
    cleanup_scratch();
    let mut bad = 0;
    for (i, va) in &a {
        if b.get(i) != Some(va) || c.get(i) != Some(va) {
            bad += 1;
            if bad <= 5 {
                eprintln!("selftest: seed index {} diverged: {:?} vs {:?} vs {:?}", i, va, b.get(i), c.get(i));
            }
        }
    }
    println!("selftest: {} seeds x 3 executions (16, 1 and 5 workers, different directories): {} divergences", a.len(), bad);
    if bad > 0 {
        2
    } else {
        0
    }
}

fn cmd_one(args: &[String]) -> i32 {
    let seed: u64 = arg_value(args, "--seed").and_then(|x| x.parse().ok()).unwrap_or(1);
    let profile = arg_value(args, "--profile").unwrap_or_else(|| "hard".into());
    let focus = match arg_value(args, "--focus").as_deref() {
        Some("C14") => Focus::C14,
        Some("C15") => Focus::C15,
        Some("C16") => Focus::C16,
        _ => Focus::Mixed,
    };
    oracle::silence_panics();
    let params = GenParams { focus, max_large: 140_000, fixtures: Arc::new(load_fixtures()) };
    let env = base_env(8000);
    let mut oracle = Oracle::new();
    let mut st = Stats::default();
    let r = explore_one(&env, &mut oracle, &params, seed, &profile, &mut st);
    println!("{}", serde_json::to_string_pretty(&sample_json(&r.case)).unwrap());
    println!("violations: {:#?}", r.violations);
    println!("harness_error: {:?}", r.harness_error);
    println!("probes: {:?}", st.probes);
    println!("faults fired: {:?}", st.faults_fired);
    if args.iter().any(|a| a == "--twice") {
        let env2 = base_env(8001);
        let r2 = explore_one(&env2, &mut oracle, &params, seed, &profile, &mut st);
        println!("digests: {:?} vs {:?}; case equal: {}", r.digests, r2.digests, r.case == r2.case);
        for (a, b) in r.logs.iter().zip(r2.logs.iter()) {
            if a != b {
                for (la, lb) in a.lines().zip(b.lines()) {
                    if la != lb {
                        println!("- {}\n+ {}", la, lb);
                    }
                }
            }
        }
        let _ = std::fs::remove_dir_all(&env2.base);
    }
    let _ = std::fs::remove_dir_all(&env.base);
    cleanup_scratch();
    0
}

fn main() {
    // everything runs on a thread with a big stack: the oracle formats very deeply nested documents
    let h = std::thread::Builder::new().stack_size(512 << 20).spawn(real_main).expect("spawn main");
    let _ = h.join();
}

fn real_main() {
    let args: Vec<String> = std::env::args().skip(1).collect();
    let code = match args.first().map(|s| s.as_str()) {
        Some("run") => cmd_run(&args[1..]),
        Some("replay") => cmd_replay(&args[1..]),
        Some("selftest") => cmd_selftest(&args[1..]),
        Some("one") => cmd_one(&args[1..]),
        Some("nonidem") => cmd_nonidem(),
        _ => {
            eprintln!("usage: clisim run|replay|selftest|one ...");
            2
        }
    };
    std::process::exit(code);
}

/// prints inputs of the known families on which one formatting pass is not a fixed point
#[allow(dead_code)]
fn cmd_nonidem() -> i32 {
    use vsim::oracle::{fmt_uncached, Cfg, Fmt};
    oracle::silence_panics();
    let mut found = 0;
    let mut cands: Vec<(String, Cfg)> = Vec::new();
    for tab in [0usize, 1, 2] {
        let c = Cfg { tab, ..Default::default() };
        cands.push(("/ term: x\n  // note\n  body\n".to_string(), c));
        cands.push(("- // note\n  item\n".to_string(), c));
        cands.push(("+ // note\n  item\n".to_string(), c));
    }
    for n in 40..90 {
        for blanks in [1usize, 3, 70] {
            let c = Cfg::default();
            cands.push((format!("#f(`{}{}\nsecond`)\n", "x".repeat(n), " ".repeat(blanks)), c));
            cands.push((format!("#figure(box(`{}{}\nsecond`))\n", "x".repeat(n), " ".repeat(blanks)), c));
            cands.push((format!("#raw(\"{}{}\n second\")\n", "x".repeat(n), " ".repeat(blanks)), c));
        }
    }
    for (t, c) in cands {
        if let Fmt::Ok(a) = fmt_uncached(&t, c) {
            if let Fmt::Ok(b) = fmt_uncached(&a, c) {
                if a != b {
                    found += 1;
                    if found <= 12 {
                        println!("{:?} tab={} col={}", t, c.tab, c.column);
                    }
                }
            }
        }
    }
    println!("{} non-idempotent candidates", found);
    0
}
