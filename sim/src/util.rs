use serde::{Deserialize, Serialize};

/// file contents: printable in replay files when valid UTF-8, hex otherwise
#[derive(Clone, Debug, PartialEq, Eq, Hash, PartialOrd, Ord)]
pub struct Bytes(pub Vec<u8>);

#[derive(Serialize, Deserialize)]
enum BytesRepr {
    #[serde(rename = "s")]
    S(String),
    #[serde(rename = "hex")]
    Hex(String),
}

impl Serialize for Bytes {
    fn serialize<S: serde::Serializer>(&self, ser: S) -> Result<S::Ok, S::Error> {
        match std::str::from_utf8(&self.0) {
            Ok(s) => BytesRepr::S(s.to_string()).serialize(ser),
            Err(_) => BytesRepr::Hex(self.0.iter().map(|b| format!("{:02x}", b)).collect()).serialize(ser),
        }
    }
}

impl<'de> Deserialize<'de> for Bytes {
    fn deserialize<D: serde::Deserializer<'de>>(de: D) -> Result<Bytes, D::Error> {
        Ok(match BytesRepr::deserialize(de)? {
            BytesRepr::S(s) => Bytes(s.into_bytes()),
            BytesRepr::Hex(h) => Bytes(
                (0..h.len() / 2)
                    .map(|i| u8::from_str_radix(&h[2 * i..2 * i + 2], 16).unwrap_or(0))
                    .collect(),
            ),
        })
    }
}

impl Bytes {
    pub fn as_str(&self) -> Option<&str> {
        std::str::from_utf8(&self.0).ok()
    }
}

impl From<&str> for Bytes {
    fn from(s: &str) -> Bytes {
        Bytes(s.as_bytes().to_vec())
    }
}
impl From<String> for Bytes {
    fn from(s: String) -> Bytes {
        Bytes(s.into_bytes())
    }
}

pub fn digest(bytes: &[u8]) -> u64 {
    crate::rng::fnv(bytes)
}

pub fn env_u64(name: &str) -> Option<u64> {
    std::env::var(name).ok().and_then(|v| v.trim().parse::<u64>().ok())
}

pub fn excerpt(s: &[u8], n: usize) -> String {
    let t = String::from_utf8_lossy(s);
    if t.len() <= n {
        t.to_string()
    } else {
        let mut k = n;
        while !t.is_char_boundary(k) {
            k -= 1;
        }
        format!("{}...[{} bytes]", &t[..k], s.len())
    }
}

/// first index at which two byte strings differ
pub fn first_diff(a: &[u8], b: &[u8]) -> usize {
    a.iter().zip(b.iter()).position(|(x, y)| x != y).unwrap_or(a.len().min(b.len()))
}

/// Paths are kept as `String`s in the model and in replay files. A byte that is not part of a
/// valid UTF-8 sequence (file names are arbitrary bytes on Unix) is represented by a private-use
/// character U+F700 + byte; `path_encode` is the inverse.
pub fn path_decode(bytes: &[u8]) -> String {
    let mut out = String::new();
    let mut rest = bytes;
    while !rest.is_empty() {
        match std::str::from_utf8(rest) {
            Ok(s) => {
                out.push_str(s);
                break;
            }
            Err(e) => {
                let (good, bad) = rest.split_at(e.valid_up_to());
                out.push_str(std::str::from_utf8(good).unwrap());
                out.push(char::from_u32(0xF700 + bad[0] as u32).unwrap());
                rest = &bad[1..];
            }
        }
    }
    out
}

pub fn path_encode(s: &str) -> Vec<u8> {
    let mut out = Vec::with_capacity(s.len());
    let mut buf = [0u8; 4];
    for c in s.chars() {
        let u = c as u32;
        if (0xF780..=0xF7FF).contains(&u) {
            out.push((u - 0xF700) as u8);
        } else {
            out.extend_from_slice(c.encode_utf8(&mut buf).as_bytes());
        }
    }
    out
}

pub fn os(s: &str) -> std::ffi::OsString {
    use std::os::unix::ffi::OsStringExt;
    std::ffi::OsString::from_vec(path_encode(s))
}
