//! The formatting oracle: the real typstyle-core from /repo, called in the harness process.
//! A library panic is "oracle unavailable" (C05's business), never a verdict.

use std::collections::HashMap;
use std::panic::{catch_unwind, AssertUnwindSafe};

use serde::{Deserialize, Serialize};
use typstyle_core::{Config, Typstyle};

#[derive(Clone, Copy, Debug, PartialEq, Eq, Hash, Serialize, Deserialize)]
pub struct Cfg {
    pub column: usize,
    pub tab: usize,
    pub reorder: bool,
    /// `blank_lines_upper_bound`: not reachable from the CLI (always the default 2 there), set by
    /// embedders of the library (engine B)
    #[serde(default = "default_blank")]
    pub blank: usize,
}

fn default_blank() -> usize {
    2
}

impl Default for Cfg {
    fn default() -> Self {
        Cfg { column: 80, tab: 2, reorder: false, blank: 2 }
    }
}

impl Cfg {
    pub fn to_config(self) -> Config {
        // (field assignment over the default, so that a Config that grows a field still builds:
        // the harness is an embedder that sets the four documented knobs and nothing else)
        let mut c = Config::default();
        c.max_width = self.column;
        c.tab_spaces = self.tab;
        c.reorder_import_items = self.reorder;
        c.blank_lines_upper_bound = self.blank;
        c
    }
}

#[derive(Clone, Debug, PartialEq, Eq)]
pub enum Fmt {
    Ok(String),
    Erroneous,
    Panic,
}

pub fn silence_panics() {
    std::panic::set_hook(Box::new(|_| {}));
}

pub fn fmt_uncached(text: &str, cfg: Cfg) -> Fmt {
    match catch_unwind(AssertUnwindSafe(|| Typstyle::new(cfg.to_config()).format_content(text))) {
        Ok(Ok(s)) => Fmt::Ok(s),
        Ok(Err(_)) => Fmt::Erroneous,
        Err(_) => Fmt::Panic,
    }
}

pub fn is_erroneous(text: &str) -> bool {
    typst_syntax::parse(text).erroneous()
}

#[derive(Default)]
pub struct Oracle {
    cache: HashMap<(u64, usize, Cfg), Fmt>,
    pub calls: u64,
    pub panics: u64,
    /// the library returned an error for a text the parser accepts (totality is C05's business:
    /// counted and reported, never a verdict of C14-C16, whose model takes the refusal as
    /// "erroneous")
    pub refused_well_formed: u64,
}

impl Oracle {
    pub fn new() -> Oracle {
        Oracle::default()
    }

    pub fn fmt(&mut self, text: &str, cfg: Cfg) -> Fmt {
        let key = (crate::rng::fnv(text.as_bytes()), text.len(), cfg);
        if let Some(r) = self.cache.get(&key) {
            return r.clone();
        }
        self.calls += 1;
        let r = fmt_uncached(text, cfg);
        if r == Fmt::Panic {
            self.panics += 1;
        }
        if r == Fmt::Erroneous && text.len() < 100_000 && !is_erroneous(text) {
            self.refused_well_formed += 1;
        }
        if self.cache.len() > 20_000 {
            self.cache.clear();
        }
        self.cache.insert(key, r.clone());
        r
    }
}
