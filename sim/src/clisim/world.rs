//! The simulated world's file tree on a private tmpfs directory: materialise, pin mtimes,
//! snapshot. All state the invariants look at (bytes, existence, mtime) is read back here by
//! the harness process itself (not interposed).

use std::collections::BTreeMap;
use std::ffi::CString;
use std::fs;
use std::io;
use std::os::unix::ffi::OsStrExt;
use std::os::unix::fs::MetadataExt;
use std::path::{Path, PathBuf};

use super::types::{Edit, Node, Tree};
use crate::util::Bytes;

/// every file's mtime is pinned to this instant before each invocation, so that any write -
/// even of identical bytes, even a bare O_TRUNC open - is visible afterwards
pub const PIN_SEC: i64 = 1_000_000_000;
pub const PIN_NSEC: i64 = 123_456_789;

#[derive(Clone, Debug, PartialEq, Eq)]
pub struct Seen {
    pub node: Node,
    pub mtime: (i64, i64),
    pub mode: u32,
}

pub type Snapshot = BTreeMap<String, Seen>;

pub fn abs(root: &Path, key: &str) -> PathBuf {
    if key == "." {
        root.to_path_buf()
    } else {
        root.join(crate::util::os(key))
    }
}

pub fn clear_dir(root: &Path) -> io::Result<()> {
    if root.exists() {
        fs::remove_dir_all(root)?;
    }
    fs::create_dir_all(root)
}

pub fn materialise(root: &Path, tree: &Tree) -> io::Result<()> {
    clear_dir(root)?;
    // BTreeMap order guarantees parents before children ("a" < "a/b")
    for (key, node) in tree {
        let p = abs(root, key);
        if let Some(parent) = p.parent() {
            fs::create_dir_all(parent)?;
        }
        match node {
            Node::Dir => fs::create_dir_all(&p)?,
            Node::File(b) => fs::write(&p, &b.0)?,
            Node::Symlink(t) => std::os::unix::fs::symlink(crate::util::os(t), &p)?,
        }
    }
    Ok(())
}

pub fn apply_edit_disk(root: &Path, edit: &Edit) -> io::Result<()> {
    match edit {
        Edit::Write { path, content } => {
            let p = abs(root, path);
            if let Some(parent) = p.parent() {
                fs::create_dir_all(parent)?;
            }
            fs::write(p, &content.0)
        }
        Edit::Delete { path } => {
            let p = abs(root, path);
            match fs::symlink_metadata(&p) {
                Ok(m) if m.is_dir() => fs::remove_dir_all(p),
                Ok(_) => fs::remove_file(p),
                Err(_) => Ok(()),
            }
        }
    }
}

pub fn apply_edit_model(tree: &mut Tree, edit: &Edit) {
    match edit {
        Edit::Write { path, content } => {
            // parents
            let mut cur = String::new();
            let comps: Vec<&str> = path.split('/').collect();
            for c in &comps[..comps.len() - 1] {
                if !cur.is_empty() {
                    cur.push('/');
                }
                cur.push_str(c);
                tree.entry(cur.clone()).or_insert(Node::Dir);
            }
            tree.insert(path.clone(), Node::File(content.clone()));
        }
        Edit::Delete { path } => {
            let keys: Vec<String> = tree
                .keys()
                .filter(|k| *k == path || super::types::is_below(k, path))
                .cloned()
                .collect();
            for k in keys {
                tree.remove(&k);
            }
        }
    }
}

fn pin_one(p: &Path) -> io::Result<()> {
    let c = CString::new(p.as_os_str().as_bytes()).unwrap();
    let ts = [
        libc::timespec { tv_sec: PIN_SEC, tv_nsec: PIN_NSEC },
        libc::timespec { tv_sec: PIN_SEC, tv_nsec: PIN_NSEC },
    ];
    let r = unsafe { libc::utimensat(libc::AT_FDCWD, c.as_ptr(), ts.as_ptr(), libc::AT_SYMLINK_NOFOLLOW) };
    if r != 0 {
        return Err(io::Error::last_os_error());
    }
    Ok(())
}

/// pin the mtime of every entry (children before parents does not matter: utimensat on a
/// child does not touch the parent's mtime)
pub fn pin_all(root: &Path) -> io::Result<()> {
    fn rec(p: &Path) -> io::Result<()> {
        let m = fs::symlink_metadata(p)?;
        if m.is_dir() {
            for e in fs::read_dir(p)? {
                rec(&e?.path())?;
            }
        }
        pin_one(p)
    }
    rec(root)
}

pub fn snapshot(root: &Path) -> io::Result<Snapshot> {
    fn rec(root: &Path, p: &Path, out: &mut Snapshot) -> io::Result<()> {
        for e in fs::read_dir(p)? {
            let e = e?;
            let path = e.path();
            let m = fs::symlink_metadata(&path)?;
            let key = crate::util::path_decode(path.strip_prefix(root).unwrap().as_os_str().as_bytes());
            let node = if m.file_type().is_symlink() {
                Node::Symlink(crate::util::path_decode(fs::read_link(&path)?.as_os_str().as_bytes()))
            } else if m.is_dir() {
                Node::Dir
            } else {
                Node::File(Bytes(fs::read(&path)?))
            };
            out.insert(key, Seen { node, mtime: (m.mtime(), m.mtime_nsec()), mode: m.mode() });
            if m.is_dir() {
                rec(root, &path, out)?;
            }
        }
        Ok(())
    }
    let mut out = Snapshot::new();
    rec(root, root, &mut out)?;
    Ok(out)
}

pub fn snapshot_tree(s: &Snapshot) -> Tree {
    s.iter().map(|(k, v)| (k.clone(), v.node.clone())).collect()
}

pub fn is_pinned(s: &Seen) -> bool {
    s.mtime == (PIN_SEC, PIN_NSEC)
}
