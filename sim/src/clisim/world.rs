//! The simulated world's file tree on a private tmpfs directory: materialise, pin mtimes,
//! snapshot. All state the invariants look at (bytes, existence, mtime) is read back here by
//! the harness process itself (not interposed).

use std::collections::BTreeMap;
use std::ffi::CString;
use std::fs;
use std::io;
use std::os::unix::ffi::OsStrExt;
use std::os::unix::fs::MetadataExt;
use std::path::{Path, PathBuf};

use super::types::{Edit, Node, Tree};
use crate::util::Bytes;

/// Every file's mtime is set to this instant when the world is materialised. Afterwards mtimes
/// are left alone - a tool that keeps (path, mtime, size) stamps between invocations must see
/// the mtimes it caused - and every invocation is judged against the mtimes observed just before
/// it: any write, even of identical bytes, even a bare O_TRUNC open, moves the mtime (`settle`
/// makes sure of that on file systems with coarse timestamps).
pub const PIN_SEC: i64 = 1_000_000_000;
pub const PIN_NSEC: i64 = 123_456_789;

#[derive(Clone, Debug, PartialEq, Eq)]
pub struct Seen {
    pub node: Node,
    pub mtime: (i64, i64),
    pub mode: u32,
    /// inode number and link count (names of one inode share their content whatever the tool does)
    pub ino: u64,
    pub nlink: u64,
}

pub type Snapshot = BTreeMap<String, Seen>;

pub fn abs(root: &Path, key: &str) -> PathBuf {
    if key == "." {
        root.to_path_buf()
    } else {
        root.join(crate::util::os(key))
    }
}

pub fn clear_dir(root: &Path) -> io::Result<()> {
    if root.exists() {
        fs::remove_dir_all(root)?;
    }
    fs::create_dir_all(root)
}

pub fn materialise(root: &Path, tree: &Tree) -> io::Result<()> {
    clear_dir(root)?;
    // BTreeMap order guarantees parents before children ("a" < "a/b")
    for (key, node) in tree {
        let p = abs(root, key);
        if let Some(parent) = p.parent() {
            fs::create_dir_all(parent)?;
        }
        match node {
            Node::Dir => fs::create_dir_all(&p)?,
            Node::File(b) => fs::write(&p, &b.0)?,
            Node::Symlink(t) => std::os::unix::fs::symlink(crate::util::os(t), &p)?,
        }
    }
    Ok(())
}

/// turns the listed names into second links to their files (after `materialise`)
pub fn link_up(root: &Path, links: &[(String, String)]) -> io::Result<()> {
    for (name, target) in links {
        let (n, t) = (abs(root, name), abs(root, target));
        let both_files = fs::symlink_metadata(&n).map(|m| m.is_file()).unwrap_or(false) && fs::symlink_metadata(&t).map(|m| m.is_file()).unwrap_or(false);
        if !both_files {
            continue; // (a minimised case may have lost one of the two)
        }
        fs::remove_file(&n)?;
        fs::hard_link(&t, &n)?;
    }
    Ok(())
}

pub fn apply_edit_disk(root: &Path, edit: &Edit) -> io::Result<()> {
    match edit {
        Edit::Write { path, content } => {
            let p = abs(root, path);
            if let Some(parent) = p.parent() {
                fs::create_dir_all(parent)?;
            }
            fs::write(p, &content.0)
        }
        Edit::Delete { path } => {
            let p = abs(root, path);
            match fs::symlink_metadata(&p) {
                Ok(m) if m.is_dir() => fs::remove_dir_all(p),
                Ok(_) => fs::remove_file(p),
                Err(_) => Ok(()),
            }
        }
    }
}

pub fn apply_edit_model(tree: &mut Tree, edit: &Edit) {
    match edit {
        Edit::Write { path, content } => {
            // parents
            let mut cur = String::new();
            let comps: Vec<&str> = path.split('/').collect();
            for c in &comps[..comps.len() - 1] {
                if !cur.is_empty() {
                    cur.push('/');
                }
                cur.push_str(c);
                tree.entry(cur.clone()).or_insert(Node::Dir);
            }
            tree.insert(path.clone(), Node::File(content.clone()));
        }
        Edit::Delete { path } => {
            let keys: Vec<String> = tree
                .keys()
                .filter(|k| *k == path || super::types::is_below(k, path))
                .cloned()
                .collect();
            for k in keys {
                tree.remove(&k);
            }
        }
    }
}

pub fn pin_one(p: &Path) -> io::Result<()> {
    let c = CString::new(p.as_os_str().as_bytes()).unwrap();
    let ts = [
        libc::timespec { tv_sec: PIN_SEC, tv_nsec: PIN_NSEC },
        libc::timespec { tv_sec: PIN_SEC, tv_nsec: PIN_NSEC },
    ];
    let r = unsafe { libc::utimensat(libc::AT_FDCWD, c.as_ptr(), ts.as_ptr(), libc::AT_SYMLINK_NOFOLLOW) };
    if r != 0 {
        return Err(io::Error::last_os_error());
    }
    Ok(())
}

/// pin the mtime of every entry (children before parents does not matter: utimensat on a
/// child does not touch the parent's mtime)
pub fn pin_all(root: &Path) -> io::Result<()> {
    pin_all_future(root, None)
}

/// `future`: a third of the regular files (chosen by a hash of their path and this value) get a
/// modification time in 2039 - files unpacked or synchronised from a machine whose clock runs
/// ahead, a restored VM. Whether a file is formatted must not depend on how its mtime compares
/// with "now".
pub fn pin_all_future(root: &Path, future: Option<u64>) -> io::Result<()> {
    fn rec(root: &Path, p: &Path, future: Option<u64>) -> io::Result<()> {
        let m = fs::symlink_metadata(p)?;
        if m.is_dir() {
            for e in fs::read_dir(p)? {
                rec(root, &e?.path(), future)?;
            }
        }
        if let (Some(f), true) = (future, m.is_file()) {
            let h = crate::rng::fnv(p.strip_prefix(root).unwrap_or(p).as_os_str().as_bytes()) ^ f;
            if h % 3 == 0 {
                let c = CString::new(p.as_os_str().as_bytes()).unwrap();
                let t = libc::timespec { tv_sec: 2_200_000_000 + (h % 100_000) as i64, tv_nsec: 0 };
                let ts = [t, t];
                let r = unsafe { libc::utimensat(libc::AT_FDCWD, c.as_ptr(), ts.as_ptr(), libc::AT_SYMLINK_NOFOLLOW) };
                if r != 0 {
                    return Err(io::Error::last_os_error());
                }
                return Ok(());
            }
        }
        pin_one(p)
    }
    rec(root, root, future)
}

/// a quarter of the regular files (chosen by a hash of path and `salt`) get mode 0444, 0555 or
/// 0000; ctime changes, mtime does not
pub fn chmod_some(root: &Path, salt: u64) -> io::Result<()> {
    fn rec(root: &Path, p: &Path, salt: u64) -> io::Result<()> {
        let m = fs::symlink_metadata(p)?;
        if m.is_dir() {
            for e in fs::read_dir(p)? {
                rec(root, &e?.path(), salt)?;
            }
        } else if m.is_file() {
            let h = crate::rng::fnv(p.strip_prefix(root).unwrap_or(p).as_os_str().as_bytes()) ^ salt.rotate_left(17);
            if h % 4 == 0 {
                let mode = [0o444, 0o555, 0o000, 0o444][((h >> 8) % 4) as usize];
                let c = CString::new(p.as_os_str().as_bytes()).unwrap();
                if unsafe { libc::chmod(c.as_ptr(), mode) } != 0 {
                    return Err(io::Error::last_os_error());
                }
            }
        }
        Ok(())
    }
    rec(root, root, salt)
}

pub fn snapshot(root: &Path) -> io::Result<Snapshot> {
    fn rec(root: &Path, p: &Path, out: &mut Snapshot) -> io::Result<()> {
        for e in fs::read_dir(p)? {
            let e = e?;
            let path = e.path();
            let m = fs::symlink_metadata(&path)?;
            let key = crate::util::path_decode(path.strip_prefix(root).unwrap().as_os_str().as_bytes());
            let node = if m.file_type().is_symlink() {
                Node::Symlink(crate::util::path_decode(fs::read_link(&path)?.as_os_str().as_bytes()))
            } else if m.is_dir() {
                Node::Dir
            } else {
                Node::File(Bytes(fs::read(&path)?))
            };
            out.insert(key, Seen { node, mtime: (m.mtime(), m.mtime_nsec()), mode: m.mode(), ino: m.ino(), nlink: m.nlink() });
            if m.is_dir() {
                rec(root, &path, out)?;
            }
        }
        Ok(())
    }
    let mut out = Snapshot::new();
    rec(root, root, &mut out)?;
    Ok(out)
}

pub fn snapshot_tree(s: &Snapshot) -> Tree {
    s.iter().map(|(k, v)| (k.clone(), v.node.clone())).collect()
}

pub fn is_pinned(s: &Seen) -> bool {
    s.mtime == (PIN_SEC, PIN_NSEC)
}

/// true if two writes in quick succession get different mtimes on this file system
pub fn fine_grained_mtime(dir: &Path) -> bool {
    let p = dir.join(".mtime-probe");
    let mut seen = std::collections::BTreeSet::new();
    for _ in 0..4 {
        if fs::write(&p, b"x").is_err() {
            return false;
        }
        if let Ok(m) = fs::metadata(&p) {
            seen.insert((m.mtime(), m.mtime_nsec()));
        }
    }
    let _ = fs::remove_file(&p);
    seen.len() == 4
}

/// on a file system with coarse timestamps: wait until "now" is clearly later than every mtime
pub fn settle(snap: &Snapshot, fine: bool) {
    if fine {
        return;
    }
    let now = std::time::SystemTime::now().duration_since(std::time::UNIX_EPOCH).map(|d| d.as_nanos() as i128).unwrap_or(0);
    let recent = snap.values().any(|s| {
        let m = s.mtime.0 as i128 * 1_000_000_000 + s.mtime.1 as i128;
        now - m < 20_000_000
    });
    if recent {
        std::thread::sleep(std::time::Duration::from_millis(20));
    }
}
