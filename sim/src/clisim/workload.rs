//! Seeded generation of worlds, invocations, histories (DESIGN.md 4.3). Swarm style: every
//! case first draws which name classes, content classes and shapes are enabled at all.

use super::types::*;
use crate::gen::{self, DocGen};
use crate::oracle::{Cfg, Fmt, Oracle};
use crate::rng::Rng;
use crate::util::Bytes;

#[derive(Clone, Copy, Debug, PartialEq, Eq)]
pub enum Focus {
    C14,
    C15,
    C16,
    Mixed,
}

#[derive(Clone, Debug)]
pub struct GenParams {
    pub focus: Focus,
    /// allow files up to this many bytes
    pub max_large: usize,
    pub fixtures: std::sync::Arc<Vec<String>>,
}

const FILE_NAMES: &[&str] = &[
    "a.typ", "b.typ", "main.typ", "c.typ", "lib.typ", "a.b.typ", "sp ace.typ", "\u{fc}n\u{ef}.typ",
    "-x.typ", "c.TYP", "d.typst", "e.ttyp", "f.typ.bak", "typ", "noext", "g.txt", "README.md",
    ".h.typ", ".typ", "atyp", "x.typ~", "UPPER.Typ", "z.typ",
    // names that are not valid UTF-8 (U+F7xx stands for the raw byte 0xxx, see util::path_encode)
    "r\u{f7e9}sum\u{f7e9}.typ", ".h\u{f7ff}.typ", "n\u{f7c3}.typ",
    // decomposed umlaut, glob characters, blanks at the edges, names that collide when case is folded
    "a.typ.typ", "a..typ", "typ.typ", "c.typ ", "a.typ.", "a.tYp", "a.typx", "a.ty", "a.typ,b.typ", "x,y.typ", "lib.typ;z.typ", "a.typ:b.typ", "u\u{308}.typ", "we[i]rd*.typ", "q?.typ", " lead.typ", "trail .typ", "A.typ", "MAIN.typ", "a.TyP", "$HOME.typ", "~.typ", "%41.typ",
    // names that special argument forms would claim: standard input, a response file, an option
    "-", "@list.typ", "--check", "-i",
];
const TYP_NAMES: &[&str] = &["a.typ", "b.typ", "main.typ", "c.typ", "lib.typ", "a.b.typ", "z.typ", "sp ace.typ", "A.typ", "MAIN.typ"];
const DIR_NAMES: &[&str] = &[
    "sub", "chapters", "nested", "a b", ".git", ".cache", "x.typ", "\u{fc}d", "d1", "d2", ".hidden", "typ", "d\u{f7fe}", ".\u{f7ff}x", "~", "$TMP", "-d",
];
const TOP_NAMES: &[&str] = &["proj", ".proj", "my proj", "src", "p.typ", "..proj", "docs"];

pub fn special_columns() -> &'static [usize] {
    &[0, 1, 2, 5, 10, 20, 30, 39, 40, 41, 60, 79, 80, 81, 100, 119, 120, 121, 127, 128, 200, 255, 256, 257, 300, 399, 400]
}

pub fn gen_cfg(rng: &mut Rng) -> StyleArgs {
    let mut s = StyleArgs::default();
    if rng.chance(0.75) {
        s.column = Some(if rng.chance(0.5) { *rng.pick(special_columns()) } else { rng.range(0, 400) });
    }
    if rng.chance(0.6) {
        s.tab = Some(if rng.chance(0.6) { *rng.pick(&[0, 1, 2, 3, 4, 8, 16]) } else { rng.range(0, 16) });
    }
    s.reorder = rng.chance(0.35);
    s.spelling = rng.below(32) as u32;
    s.after = rng.chance(0.35);
    s
}

/// a document source bound to one case: produces contents by class
pub struct Docs<'a> {
    pub rng: Rng,
    pub oracle: &'a mut Oracle,
    pub params: &'a GenParams,
    pub main_cfg: Cfg,
    pub counter: u64,
    pub seed: u64,
}

impl<'a> Docs<'a> {
    pub fn fresh_doc(&mut self, loose: f64) -> String {
        self.counter += 1;
        let s = crate::rng::mix(self.seed, self.counter);
        if !self.params.fixtures.is_empty() && self.rng.chance(0.12) {
            return self.rng.pick(&self.params.fixtures).clone();
        }
        let n = match self.rng.below(10) {
            0 => 1,
            1..=5 => self.rng.range(1, 4),
            6..=8 => self.rng.range(3, 10),
            _ => self.rng.range(8, 30),
        };
        DocGen::new(s, s).with_loose(loose).document(n)
    }

    pub fn formatted_main(&mut self) -> String {
        self.formatted(self.main_cfg)
    }

    fn formatted(&mut self, cfg: Cfg) -> String {
        for _ in 0..4 {
            let d = self.fresh_doc(0.3);
            if let Fmt::Ok(f) = self.oracle.fmt(&d, cfg) {
                return f;
            }
        }
        "#let x = 1\n".to_string()
    }

    fn large(&mut self, target: usize) -> String {
        let mut s = String::new();
        let piece_n = self.rng.range(3, 12);
        while s.len() < target {
            self.counter += 1;
            let sd = crate::rng::mix(self.seed, self.counter);
            s.push_str(&DocGen::new(sd, sd).with_loose(0.5).document(piece_n));
            s.push('\n');
        }
        s
    }

    /// contents of one file / stdin, by class; now and then behind a first line in the style of
    /// the repository's own fixture files (`/// typstyle: reorder-import-items`: a convention of
    /// the test harness - to the formatter it is a comment like any other, and whatever a
    /// front-end makes of it, the text it yields has to be the library's for the given options)
    pub fn content(&mut self) -> Bytes {
        let b = self.content_plain();
        if self.rng.chance(0.06) && !b.0.is_empty() && std::str::from_utf8(&b.0).is_ok() {
            let head = *self.rng.pick(&["/// typstyle: reorder-import-items\n", "/// typstyle: reorder-import-items\n", "/// typstyle: reorder-import-items=false\n", "/// typstyle: off\n", "// typstyle: reorder-import-items\n"]);
            let mut v = head.as_bytes().to_vec();
            v.extend_from_slice(&b.0);
            return Bytes(v);
        }
        b
    }

    fn content_plain(&mut self) -> Bytes {
        let w = [22u32, 34, 9, 3, 3, 5, 4, 4, 3, 4, 5, 4, 5, 3, 3, 4, 3, 1];
        match self.rng.weighted(&w) {
            0 => self.formatted(self.main_cfg).into(),
            1 => self.fresh_doc(0.7).into(),
            2 => {
                let d = self.fresh_doc(0.5);
                let e = gen::erroneous_variant(&d, &mut self.rng);
                if self.rng.chance(0.3) {
                    gen::drop_final_newline(&e).into()
                } else {
                    e.into()
                }
            }
            3 => Bytes(Vec::new()),
            4 => Bytes(self.rng.pick(&["\n", " ", "\n\n\n", "  \n  \n", "\t\n", "\r\n"]).as_bytes().to_vec()),
            5 => {
                // no final newline (formatted otherwise, or loose)
                let d = if self.rng.chance(0.5) { self.formatted(self.main_cfg) } else { self.fresh_doc(0.5) };
                gen::drop_final_newline(&d).into()
            }
            6 => {
                let d = if self.rng.chance(0.5) { self.formatted(self.main_cfg) } else { self.fresh_doc(0.5) };
                gen::to_crlf(&d).into()
            }
            7 => {
                // invalid UTF-8: unreadable as text
                let mut b = self.fresh_doc(0.5).into_bytes();
                let pos = self.rng.below(b.len() + 1);
                let bads: [&[u8]; 4] = [&[0xff], &[0xc3, 0x28], &[0xe2, 0x82], &[0xf0, 0x28, 0x8c, 0x28]];
                let bad: &[u8] = *self.rng.pick(&bads);
                for (i, x) in bad.iter().enumerate() {
                    b.insert((pos + i).min(b.len()), *x);
                }
                Bytes(b)
            }
            8 => {
                // sizes that straddle common buffer sizes
                let cap = self.params.max_large.max(5000);
                let target = *self.rng.pick(&[4090usize, 8190, 16380, 32760, 65530, 70000, 131070, 300000]);
                let target = target.min(cap);
                let mut s = self.large(target);
                if self.rng.chance(0.3) {
                    if let Fmt::Ok(f) = self.oracle.fmt(&s, self.main_cfg) {
                        s = f;
                    }
                } else if self.rng.chance(0.25) {
                    // a large erroneous input (to be echoed / left alone byte for byte), sometimes
                    // without final newline
                    s = gen::erroneous_variant(&s, &mut self.rng);
                    if self.rng.chance(0.4) {
                        s = gen::drop_final_newline(&s);
                    }
                }
                s.into()
            }
            9 => {
                let d = self.formatted(self.main_cfg);
                gen::add_trailing_blanks(&d, &mut self.rng).into()
            }
            10 => {
                // formatted, but under a different configuration than the invocation will use
                let other = gen_cfg(&mut self.rng).cfg();
                self.formatted(other).into()
            }
            12 => {
                // formatted under the main configuration except for the order of import items:
                // differs from its formatted form only when --reorder-import-items is given
                let mut cfg = self.main_cfg;
                cfg.reorder = false;
                let mut s = String::new();
                for k in 0..self.rng.range(1, 3) {
                    let mut names: Vec<String> = if self.rng.chance(0.35) {
                        // identifiers outside ASCII whose encodings share their lead byte: after
                        // reordering, input and output first differ in the middle of a character
                        const CYR: &[&str] = &["\u{432}", "\u{431}", "\u{430}", "\u{433}", "\u{434}"];
                        const CJK: &[&str] = &["\u{540d}", "\u{524d}", "\u{5b57}", "\u{5f0f}"];
                        const GRK: &[&str] = &["\u{3b2}", "\u{3b1}", "\u{3b4}", "\u{3b3}"];
                        let pools: [&[&str]; 3] = [CYR, CJK, GRK];
                        let pool: &[&str] = pools[self.rng.below(3)];
                        let mut v: Vec<String> = pool.iter().map(|x| x.to_string()).collect();
                        self.rng.shuffle(&mut v);
                        v.truncate(self.rng.range(2, pool.len()));
                        v
                    } else {
                        (0..self.rng.range(2, 6)).map(|j| format!("{}{}zq{}x{}", self.rng.pick(&["b", "a", "zz", "m", "c"]), j, self.seed % 99991, self.counter + k as u64)).collect()
                    };
                    self.rng.shuffle(&mut names);
                    s.push_str(&format!("#import \"m{}.typ\": {}\n", k, names.join(", ")));
                }
                self.counter += 4;
                match self.oracle.fmt(&s, cfg) {
                    Fmt::Ok(f) => f.into(),
                    _ => s.into(),
                }
            }
            13 => {
                // byte-order mark, control characters: the front-end must hand the text over as is
                let d = if self.rng.chance(0.5) { self.formatted(self.main_cfg) } else { self.fresh_doc(0.5) };
                match self.rng.below(3) {
                    0 => format!("\u{feff}{}", d).into(),
                    1 => format!("{}// nul \u{0} bell \u{7} esc \u{1b}[31m\n", d).into(),
                    _ => format!("{}#let s = \"tab\there \u{b} ff \u{c}\"\n", d).into(),
                }
            }
            14 => {
                // erroneous input surrounded by blanks: must be echoed byte for byte
                let d = self.fresh_doc(0.5);
                let e = gen::erroneous_variant(&d, &mut self.rng);
                format!("{}{}{}", self.rng.pick(&["", "\n\n", "  ", "\t\n"]), e, self.rng.pick(&["", "\n\n\n", "   ", " \n \n", "\r\n"])).into()
            }
            15 => {
                // exact sizes at and around buffer boundaries, with a 4-byte character straddling
                // the boundary: padding lives in a trailing line comment, so the class of the
                // document (formatted / not) is whatever the library says
                let b = if self.rng.chance(0.4) { 4096 * self.rng.range(1, 33) } else { *self.rng.pick(&[512usize, 1024, 4096, 8192, 16384, 32768, 65536, 131072]) };
                let b = b.min(self.params.max_large.max(8192));
                let head = if self.rng.chance(0.5) { self.formatted(self.main_cfg) } else { self.fresh_doc(0.5) };
                let mut s = head;
                while s.len() + 64 > b && s.len() > 200 {
                    // too long for this boundary: keep only the first lines
                    let mut half = s.len() / 2;
                    while !s.is_char_boundary(half) {
                        half -= 1;
                    }
                    let cut = s[..half].rfind('\n').map(|i| i + 1).unwrap_or(0);
                    s.truncate(cut);
                }
                let k = self.rng.range(0, 3); // how many bytes of the 4-byte char lie before the boundary
                let delta: i64 = *self.rng.pick(&[-1i64, 0, 0, 1, 2]); // final size relative to the boundary
                if s.len() + 16 < b {
                    s.push_str("// ");
                    // the emoji starts at offset b - k
                    while s.len() < b - k {
                        s.push('p');
                    }
                    if k > 0 {
                        s.push('\u{1f600}');
                    }
                    let want = (b as i64 + delta).max(s.len() as i64 + 1) as usize;
                    while s.len() + 1 < want {
                        s.push('q');
                    }
                    s.push('\n');
                }
                s.into()
            }
            16 => {
                // families on which one formatting pass is known not to reach a fixed point (a term
                // or list item whose body starts with a comment line, at small tab widths; a call
                // whose only argument is multi-line raw text with trailing blanks near the width
                // limit): a front-end must yield exactly one pass of the library, not "settle"
                let id = self.counter;
                self.counter += 1;
                match self.rng.below(4) {
                    0 => format!("/ term{}: zqni{}x{}\n  // note\n  body\n", id, self.seed % 9973, id).into(),
                    1 => format!("- // note\n  item zqni{}x{}\n", self.seed % 9973, id).into(),
                    2 => {
                        let pad = "x".repeat(self.rng.range(40, 75));
                        format!("#raw(\"{}   \n second line zqni{}x{}  \")\n", pad, self.seed % 9973, id).into()
                    }
                    _ => {
                        // confirmed on the pinned tree (`clisim nonidem`): 40-60 characters, then 70
                        // blanks, inside multi-line raw text two calls deep
                        let pad = "y".repeat(self.rng.range(40, 60));
                        format!("#figure(box(`{}{}\nzqni{}x{}`))\n", pad, " ".repeat(70), self.seed % 9973, id).into()
                    }
                }
            }
            17 => {
                // very deep nesting (1500-2000 parentheses inside one another, which the formatter
                // strips, so input and output stay small): measured on the unoptimised CLI, an 8 MiB
                // main thread manages 2500 and more, a 2 MiB stack gives up between 900 and 1200
                // (if the binary cannot do it even alone on stdin, exec.rs takes the case out)
                let depth = self.rng.range(1500, 2000);
                let id = self.counter;
                self.counter += 1;
                format!("#let zqvd{}x{} = {} 1 {}\n", self.seed % 9973, id, "(".repeat(depth), ")".repeat(depth)).into()
            }
            _ => {
                // (class 11) unformatted but tiny
                let id = self.counter;
                self.counter += 1;
                format!("#let   zqt{}x{}  =  ( 1,2 ,3 )\n", self.seed % 9973, id).into()
            }
        }
    }
}

fn rel_from(cwd: &str, key: &str) -> String {
    // relative path from directory cwd to key, lexically
    let c: Vec<&str> = if cwd == "." { vec![] } else { cwd.split('/').collect() };
    let k: Vec<&str> = if key == "." { vec![] } else { key.split('/').collect() };
    let mut i = 0;
    while i < c.len() && i < k.len() && c[i] == k[i] {
        i += 1;
    }
    let mut parts: Vec<String> = Vec::new();
    for _ in i..c.len() {
        parts.push("..".into());
    }
    for x in &k[i..] {
        parts.push(x.to_string());
    }
    if parts.is_empty() {
        ".".into()
    } else {
        parts.join("/")
    }
}

/// one of several spellings of the same path
fn spell(rng: &mut Rng, cwd: &str, key: &str, dirlike: bool) -> String {
    let rel = rel_from(cwd, key);
    let mut s = match rng.below(10) {
        0 | 1 => format!("./{}", rel),
        2 => {
            if key == "." {
                "{ROOT}".to_string()
            } else {
                format!("{{ROOT}}/{}", key)
            }
        }
        3 if rel != "." && !rel.starts_with("..") => {
            // detour through the parent
            match rel.split_once('/') {
                Some((first, rest)) => format!("{}/../{}/{}", first, first, rest),
                None => rel.clone(),
            }
        }
        _ => rel.clone(),
    };
    if dirlike && rng.chance(0.2) && !s.ends_with('/') {
        s.push('/');
    }
    // a name starting with '-' must not be mistaken for an option (a lone "-" is a value for the
    // command-line parser, and the name of a file like any other)
    if s.starts_with('-') && !(s == "-" && rng.chance(0.5)) {
        s = format!("./{}", s);
    }
    s
}

fn dirs_of(tree: &Tree) -> Vec<String> {
    let mut v = vec![".".to_string()];
    v.extend(tree.iter().filter(|(_, n)| matches!(n, Node::Dir)).map(|(k, _)| k.clone()));
    v
}

fn files_of(tree: &Tree) -> Vec<String> {
    tree.iter().filter(|(_, n)| matches!(n, Node::File(_))).map(|(k, _)| k.clone()).collect()
}

fn join(dir: &str, name: &str) -> String {
    if dir == "." {
        name.to_string()
    } else {
        format!("{}/{}", dir, name)
    }
}

pub fn gen_tree(rng: &mut Rng, docs: &mut Docs) -> Tree {
    let mut tree = Tree::new();
    // swarm: which name classes are enabled in this case
    let odd_names = rng.chance(0.6);
    let hidden = rng.chance(0.6);
    let symlinks = rng.chance(0.35);
    let top = if rng.chance(0.8) { Some(rng.pick(TOP_NAMES).to_string()) } else { None };
    if let Some(t) = &top {
        tree.insert(t.clone(), Node::Dir);
    }
    let base = top.clone().unwrap_or_else(|| ".".into());
    let c14 = docs.params.focus == Focus::C14;
    let very_wide = rng.chance(if c14 { 0.05 } else { 0.015 });
    // The exit status of a check is an OR over the inputs, so a tree in which exactly one file
    // differs is the most sensitive workload for anything that loses, skips or mis-accounts a few
    // inputs of many: in most of the very wide trees, and in a share of the ordinary ones, all
    // files are formatted except one.
    let single_odd = rng.chance(if c14 { 0.7 } else { 0.5 });
    let one_differs = !very_wide && rng.chance(if c14 { 0.3 } else { 0.1 });
    let mut differing_placed = false;
    let odd_index = rng.below(150);
    let wide = very_wide || rng.chance(0.05);
    let n = if very_wide {
        // several times more files than cores
        rng.range(64, 150)
    } else if wide {
        // more eligible files than cores / than any small batch size
        rng.range(17, 45)
    } else {
        match rng.below(10) {
            0 => 0,
            1..=4 => rng.range(1, 3),
            5..=8 => rng.range(3, 7),
            _ => rng.range(6, 12),
        }
    };
    for i in 0..n {
        // pick or create a directory
        let dirs: Vec<String> = dirs_of(&tree).into_iter().filter(|d| d == &base || is_below(d, &base) || base == ".").collect();
        let mut dir = rng.pick(&dirs).clone();
        if rng.chance(0.04) {
            // a long chain of directories (a walk with a depth limit would stop short)
            // (now and then far deeper than any "reasonable" limit: 33..257 levels)
            let levels = if rng.chance(0.15) { *rng.pick(&[33usize, 65, 101, 129, 257]) } else { rng.range(6, 14) };
            for k in 0..levels {
                dir = join(&dir, &format!("l{}", k));
                tree.insert(dir.clone(), Node::Dir);
            }
        } else if rng.chance(0.35) && dir.matches('/').count() < 4 {
            let mut name = rng.pick(DIR_NAMES).to_string();
            if !hidden && name.starts_with('.') {
                name = "sub".into();
            }
            if !odd_names && !name.is_ascii() {
                name = "d1".into();
            }
            dir = join(&dir, &name);
            if tree.contains_key(&dir) && !matches!(tree.get(&dir), Some(Node::Dir)) {
                continue;
            }
            tree.insert(dir.clone(), Node::Dir);
            if rng.chance(0.15) {
                continue; // empty directory
            }
        }
        let mut name = if wide && rng.chance(0.85) {
            format!("f{:03}.typ", i)
        } else if rng.chance(0.55) {
            rng.pick(TYP_NAMES).to_string()
        } else {
            rng.pick(FILE_NAMES).to_string()
        };
        if !hidden && name.starts_with('.') {
            name = "a.typ".into();
        }
        if !odd_names && (!name.is_ascii() || name.contains(' ') || name.starts_with('-')) {
            name = "b.typ".into();
        }
        let key = join(&dir, &name);
        if tree.contains_key(&key) {
            continue;
        }
        // a neighbour whose name looks like a temporary / backup of an existing .typ file: an
        // implementation that writes through such a name must not clobber it
        if rng.chance(0.08) {
            let typs: Vec<String> = files_of(&tree).into_iter().filter(|k| k.ends_with(".typ")).collect();
            if !typs.is_empty() {
                let base = rng.pick(&typs).clone();
                let (d, n) = (parent(&base).to_string(), file_name(&base).to_string());
                let stem = n.trim_end_matches(".typ");
                let cand = match rng.below(9) {
                    0 => format!("{}.tmp", n),
                    1 => format!("{}.bak", n),
                    2 => format!("{}~", n),
                    3 => format!("{}.new", n),
                    4 => format!("{}.orig", n),
                    5 => format!("{}.tmp", stem),
                    6 => format!(".{}.tmp", n),
                    7 => format!(".{}.swp", n),
                    _ => format!("{}.tmp.typ", stem),
                };
                let k2 = join(&d, &cand);
                if !tree.contains_key(&k2) {
                    tree.insert(k2, Node::File(docs.content()));
                }
                continue;
            }
        }
        if symlinks && rng.chance(0.07) {
            // a symbolic link to a directory (also to a hidden one, to its own parent, to the
            // directory it lives in): a walk that does not follow links never enters it; the model
            // treats the link as a leaf and no generated path ever leads through it
            let all_dirs = dirs_of(&tree);
            let target_key = match rng.below(4) {
                0 => dir.clone(),
                1 => parent(&dir).to_string(),
                _ => rng.pick(&all_dirs).clone(),
            };
            let lname = *rng.pick(&["ln", "linked", "loop", "ld.typ"]);
            let lkey = join(&dir, lname);
            if !tree.contains_key(&lkey) {
                let t = rel_from(&dir, &target_key);
                tree.insert(lkey, Node::Symlink(t));
            }
            continue;
        }
        if symlinks && rng.chance(0.2) {
            let files = files_of(&tree);
            let target_key = if !files.is_empty() && rng.chance(0.8) { rng.pick(&files).clone() } else { join(&dir, "missing.typ") };
            let t = rel_from(&dir, &target_key);
            tree.insert(key, Node::Symlink(t));
        } else if very_wide && (single_odd || rng.chance(0.9)) {
            // keep the many files cheap: mostly formatted one-liners, a few that differ
            let id = docs.counter;
            docs.counter += 1;
            let differs = if single_odd { i == odd_index % n } else { rng.chance(0.15) };
            let text = if !differs { format!("#let zqw{}x{} = 1\n", docs.seed % 9973, id) } else { format!("#let   zqw{}x{}=1\n", docs.seed % 9973, id) };
            tree.insert(key, Node::File(text.into()));
        } else if one_differs && name.ends_with(".typ") {
            // all formatted (under the main style) except the first or a random later one
            let last_chance = i + 1 == n;
            if !differing_placed && (last_chance || rng.chance(0.3)) {
                differing_placed = true;
                let c = match rng.below(3) {
                    0 => docs.fresh_doc(0.7).into(),
                    _ => docs.content(),
                };
                tree.insert(key, Node::File(c));
            } else {
                let f = docs.formatted_main();
                tree.insert(key, Node::File(f.into()));
            }
        } else {
            tree.insert(key, Node::File(docs.content()));
        }
    }
    // Files that *other* tools give a meaning to - ignore lists, editor and formatter settings.
    // To typstyle they are ineligible files like any other: they must stay untouched, and neither
    // the set of files that is formatted nor the text that is produced may depend on them.
    if rng.chance(0.15) {
        let typ_files: Vec<String> = tree.iter().filter(|(k, n)| matches!(n, Node::File(_)) && k.ends_with(".typ")).map(|(k, _)| k.clone()).collect();
        for _ in 0..rng.range(1, 2) {
            let dirs = dirs_of(&tree);
            let dir = if rng.chance(0.6) { base.clone() } else { rng.pick(&dirs).clone() };
            let (name, text): (&str, String) = if rng.chance(0.5) {
                let name = *rng.pick(&[".gitignore", ".ignore", ".typstyleignore", ".formatignore", ".prettierignore", ".fdignore"]);
                let mut lines: Vec<String> = Vec::new();
                for _ in 0..rng.range(1, 3) {
                    lines.push(match rng.below(6) {
                        0 => "*.typ".to_string(),
                        1 => "*".to_string(),
                        2 if !typ_files.is_empty() => file_name(rng.pick(&typ_files).as_str()).to_string(),
                        3 if !typ_files.is_empty() => format!("/{}", rng.pick(&typ_files)),
                        4 if !dirs.is_empty() => format!("{}/", file_name(rng.pick(&dirs).as_str())),
                        _ => "**/*.typ".to_string(),
                    });
                }
                (name, lines.join("\n") + "\n")
            } else {
                let name = *rng.pick(&["typstyle.toml", ".typstyle.toml", ".typstylerc", ".editorconfig", ".editorconfig", ".editorconfig", "typst.toml", ".typstyle.json"]);
                let text = match name {
                    ".editorconfig" => "root = true\n[*]\nindent_style = tab\nindent_size = 8\nmax_line_length = 30\nend_of_line = crlf\ninsert_final_newline = false\n[*.typ]\nindent_size = 7\nmax_line_length = 25\n".to_string(),
                    ".typstyle.json" => "{\"column\": 33, \"tab_width\": 7, \"tab-width\": 7, \"reorder_import_items\": true, \"exclude\": [\"*.typ\"]}\n".to_string(),
                    _ => "column = 33\nmax_width = 33\ntab_width = 7\ntab-width = 7\ntab_spaces = 7\nreorder_import_items = true\nreorder-import-items = true\nexclude = [\"*.typ\", \"**\"]\n[format]\ncolumn = 21\ntab_width = 5\n[tool.typstyle]\ncolumn = 21\n".to_string(),
                };
                (name, text)
            };
            let key = join(&dir, name);
            if !tree.contains_key(&key) && matches!(tree.get(&dir), Some(Node::Dir) | None) {
                tree.insert(key, Node::File(text.into()));
            }
        }
    }
    tree
}

fn gen_paths(rng: &mut Rng, tree: &Tree, cwd: &str, mode: Mode) -> Vec<String> {
    let files = files_of(tree);
    let links: Vec<String> = tree.iter().filter(|(_, n)| matches!(n, Node::Symlink(_))).map(|(k, _)| k.clone()).collect();
    let dirs = dirs_of(tree);
    // links to directories, with the directory they lead to
    let dirlinks: Vec<(String, String)> = links
        .iter()
        .filter_map(|l| {
            let Some(Node::Symlink(t)) = tree.get(l) else { return None };
            let tk = resolve(parent(l), t)?;
            (tk == "." || matches!(tree.get(&tk), Some(Node::Dir))).then(|| (l.clone(), tk))
        })
        .collect();
    let mut n = match rng.below(12) {
        0..=3 => 1,
        4..=7 => rng.range(2, 3),
        8..=10 => rng.range(3, 6),
        _ => rng.range(6, 14),
    };
    if files.len() >= 17 && rng.chance(0.5) {
        // list lengths at and around powers of two
        n = *rng.pick(&[15usize, 16, 17, 31, 32, 33, 63, 64, 65, 100, 127, 128, 129, 255, 256, 257]);
        n = n.min(files.len() * 2);
    }
    let mut out: Vec<String> = Vec::new();
    for _ in 0..n {
        let r = rng.below(100);
        let p = if (66..72).contains(&r) && !dirlinks.is_empty() {
            // a path that leads through a link to a directory: into it, or `link/../name` -
            // which is the parent of the directory the link points to, not of the link
            let (l, t) = rng.pick(&dirlinks).clone();
            let below: Vec<String> = files.iter().filter(|f| is_below(f, &t)).cloned().collect();
            let via = spell(rng, cwd, &l, false);
            if t == "." || (!below.is_empty() && rng.chance(0.5)) {
                match below.is_empty() {
                    false => {
                        let f: String = rng.pick(&below[..]).clone();
                        format!("{}/{}", via, rel_from(&t, &f))
                    }
                    true => format!("{}/nope.typ", via),
                }
            } else {
                let mut names: Vec<String> = files.iter().filter(|f| parent(f) == parent(&t) || parent(f) == parent(&l)).map(|f| file_name(f).to_string()).collect();
                names.push("nope.typ".to_string());
                format!("{}/../{}", via, rng.pick(&names[..]))
            }
        } else if r < 72 && !files.is_empty() {
            let f = rng.pick(&files).clone();
            let mut s = spell(rng, cwd, &f, false);
            if rng.chance(0.03) {
                // a trailing slash after a regular file: not a directory
                if s == "-" {
                    s = "./-".into();
                }
                s.push('/');
            }
            s
        } else if r < 80 {
            // missing
            let d = rng.pick(&dirs).clone();
            let nm = *rng.pick(&["nope.typ", "gone.typ", "a.typ.missing"]);
            spell(rng, cwd, &join(&d, nm), false)
        } else if r < 86 {
            // a directory where a file is expected
            let d = rng.pick(&dirs).clone();
            spell(rng, cwd, &d, true)
        } else if r < 92 && !links.is_empty() && mode != Mode::Inplace {
            let f = rng.pick(&links).clone();
            spell(rng, cwd, &f, false)
        } else if !out.is_empty() {
            // duplicate
            rng.pick(&out).clone()
        } else if !files.is_empty() {
            let f = rng.pick(&files).clone();
            spell(rng, cwd, &f, false)
        } else {
            "nope.typ".into()
        };
        out.push(p);
    }
    out
}

pub fn gen_inv(rng: &mut Rng, tree: &Tree, docs: &mut Docs, focus: Focus, main_style: &StyleArgs) -> Inv {
    let dirs = dirs_of(tree);
    let cwd = if rng.chance(0.5) { ".".to_string() } else { rng.pick(&dirs).clone() };
    let style = if rng.chance(0.55) {
        let mut s = main_style.clone();
        s.spelling = rng.below(32) as u32;
        s.after = rng.chance(0.35);
        s
    } else {
        gen_cfg(rng)
    };
    // shape weights: stdout-files, inplace, check-files, stdin, stdin-check, format-all, format-all-check, inplace-check
    let w: [u32; 8] = match focus {
        Focus::C14 => [2, 6, 30, 1, 14, 4, 40, 3],
        Focus::C15 => [2, 38, 4, 1, 1, 48, 5, 1],
        Focus::C16 => [38, 14, 2, 26, 2, 16, 1, 1],
        Focus::Mixed => [14, 18, 14, 10, 8, 18, 16, 2],
    };
    // a tree with very many files: most invocations should walk (or list) all of them
    let nfiles = files_of(tree).len();
    let big = nfiles >= 17 && rng.chance(if nfiles >= 64 { 0.8 } else { 0.4 });
    let shape_pick = if big { if rng.chance(0.5) { 6 } else { 5 } } else { rng.weighted(&w) };
    let shape = match shape_pick {
        0 => Shape::Files { mode: Mode::Stdout, paths: gen_paths(rng, tree, &cwd, Mode::Stdout) },
        1 => Shape::Files { mode: Mode::Inplace, paths: gen_paths(rng, tree, &cwd, Mode::Inplace) },
        2 => Shape::Files { mode: Mode::Check, paths: gen_paths(rng, tree, &cwd, Mode::Check) },
        3 => Shape::Stdin { check: false },
        4 => Shape::Stdin { check: true },
        5 | 6 => {
            let check = if big { shape_pick == 6 && focus != Focus::C15 || focus == Focus::C14 && rng.chance(0.7) } else { rng.weighted(&w[5..7]) == 1 };
            let dir = if big {
                // the directory with the most files below it (ties: shortest path)
                let mut best = ".".to_string();
                let mut best_n = 0;
                for d in &dirs {
                    let k = tree.keys().filter(|k| is_below(k, d)).count();
                    if k > best_n || (k == best_n && d.len() < best.len()) {
                        best = d.clone();
                        best_n = k;
                    }
                }
                Some(spell(rng, &cwd, &best, true))
            } else if rng.chance(0.25) {
                None
            } else {
                // one time in eight (if there is one): a link to a directory given as DIR - the
                // walk starts at the directory it leads to
                let dirlinks: Vec<String> = tree
                    .iter()
                    .filter(|(k, n)| matches!(n, Node::Symlink(_)) && matches!(follow(tree, k).map(|t| t == "." || matches!(tree.get(&t), Some(Node::Dir))), Some(true)))
                    .map(|(k, _)| k.clone())
                    .collect();
                if !dirlinks.is_empty() && rng.chance(0.125) {
                    let l = rng.pick(&dirlinks).clone();
                    Some(spell(rng, &cwd, &l, true))
                } else {
                    let d = rng.pick(&dirs).clone();
                    Some(spell(rng, &cwd, &d, true))
                }
            };
            Shape::FormatAll { check, dir, inplace: rng.chance(0.12) }
        }
        _ => Shape::Files { mode: Mode::InplaceCheck, paths: gen_paths(rng, tree, &cwd, Mode::Check) },
    };
    // `... | typstyle [--check] a.typ /dev/stdin b.typ`
    let mut shape = shape;
    let mut dev_stdin = false;
    if let Shape::Files { mode, paths } = &mut shape {
        if matches!(mode, Mode::Stdout | Mode::Check) && rng.chance(0.03) {
            let at = rng.below(paths.len() + 1);
            paths.insert(at, "/dev/stdin".to_string());
            dev_stdin = true;
        }
    }
    let stdin = match &shape {
        _ if dev_stdin => Some(docs.content()),
        Shape::Stdin { .. } => Some(docs.content()),
        _ => {
            if rng.chance(0.1) {
                Some(docs.content())
            } else {
                None
            }
        }
    };
    let mut style = style;
    if matches!(shape, Shape::FormatAll { .. }) && style.after && rng.chance(0.3) {
        // the same option before and after the subcommand; half of the time the one that counts
        // spells out the default
        if rng.chance(0.7) {
            if style.column.is_none() || rng.chance(0.5) {
                style.column = Some(80);
            }
            style.pre_column = Some(*rng.pick(&[0usize, 20, 40, 79, 81, 120, 400]));
        }
        if rng.chance(0.5) {
            if style.tab.is_none() || rng.chance(0.5) {
                style.tab = Some(2);
            }
            style.pre_tab = Some(*rng.pick(&[0usize, 1, 3, 4, 8]));
        }
    }
    let debug_ok = debug_output_is_small(tree, stdin.as_ref().map(|b| b.0.as_slice()));
    let mut env = gen_env(rng);
    let many_inputs = match &shape {
        Shape::Files { paths, .. } => paths.len() >= 60,
        Shape::FormatAll { .. } => tree.values().filter(|n| matches!(n, Node::File(_))).count() >= 60,
        _ => false,
    };
    if many_inputs && rng.chance(0.4) {
        // a small `ulimit -n`: fine for a tool that closes what it opens
        env.push(("VSIM_NOFILE".to_string(), "48".to_string()));
    }
    Inv {
        shape,
        style,
        verbosity: *rng.pick(&[0, 0, 0, 0, 1, 2, 3, 4]),
        check_after: rng.chance(0.4),
        cwd,
        stdin,
        plan: Vec::new(),
        shim_seed: rng.next_u64() >> 1,
        readdir: rng.pick(&["perm", "perm", "perm", "sorted", "reverse", "native"]).to_string(),
        env,
        dashdash: rng.chance(0.08),
        debug: if rng.chance(0.04) && debug_ok { *rng.pick(&[1u8, 2, 3, 5, 6, 7]) } else { 0 },
    }
}

/// the debug options dump the whole syntax tree / layout document: only for small, shallow worlds
/// (a dump of a 2 MiB file or of 2000 nesting levels tests the Debug implementations of the
/// dependencies, not the front-end)
pub fn debug_output_is_small(tree: &Tree, stdin: Option<&[u8]>) -> bool {
    fn shallow(b: &[u8]) -> bool {
        let mut depth = 0i32;
        for &c in b {
            match c {
                b'(' | b'[' | b'{' => {
                    depth += 1;
                    if depth > 60 {
                        return false;
                    }
                }
                b')' | b']' | b'}' => depth -= 1,
                _ => {}
            }
        }
        true
    }
    let mut total = stdin.map(|b| b.len()).unwrap_or(0);
    if !stdin.map(shallow).unwrap_or(true) {
        return false;
    }
    for n in tree.values() {
        if let Node::File(b) = n {
            total += b.0.len();
            if !shallow(&b.0) {
                return false;
            }
        }
    }
    total < 16 * 1024
}

/// a few environment variables a front-end might be tempted to look at
fn gen_env(rng: &mut Rng) -> Vec<(String, String)> {
    let mut v = Vec::new();
    if rng.chance(0.12) {
        // every environment variable that is not set reads as "1" (interposer): whatever variable
        // a front-end might consult, the formatted text, the files and the exit status must not
        // depend on it
        v.push(("VSIM_ENVJUNK".to_string(), "1".to_string()));
    }
    if rng.chance(0.3) {
        let names = [
            "COLUMNS", "LINES", "TERM", "NO_COLOR", "CLICOLOR_FORCE", "LANG", "LC_ALL", "LC_CTYPE", "LANG", "TYPSTYLE_COLUMN", "TYPSTYLE_TAB_WIDTH",
            "TYPSTYLE_COLUMNS", "TYPSTYLE_CHECK", "TYPSTYLE_INPLACE", "TYPSTYLE_LOG", "RUST_LOG", "TAB_WIDTH", "COLUMN", "CI", "EDITOR", "PAGER",
        ];
        for _ in 0..rng.range(1, 4) {
            let n = *rng.pick(&names);
            let val = match n {
                "TERM" => "dumb".to_string(),
                "LANG" | "LC_ALL" | "LC_CTYPE" => rng.pick(&["C", "tr_TR.UTF-8", "de_DE.ISO-8859-1", "zh_CN.UTF-8", "ja_JP.UTF-8", "ko_KR.UTF-8", "zh_TW.UTF-8", "ja_JP.eucJP"]).to_string(),
                // (HOME and TMPDIR are never pointed at something unusable: a tool that keeps state or
                // temporary files there may legitimately fail in such an environment)
                "EDITOR" | "PAGER" => "cat".to_string(),
                "RUST_LOG" | "TYPSTYLE_LOG" => "trace".to_string(),
                "NO_COLOR" | "CLICOLOR_FORCE" | "CI" | "TYPSTYLE_CHECK" | "TYPSTYLE_INPLACE" => rng.pick(&["1", "true", "0"]).to_string(),
                _ => rng.pick(&["0", "1", "7", "13", "40", "100", "200"]).to_string(),
            };
            if !v.iter().any(|(k, _): &(String, String)| k == n) {
                v.push((n.to_string(), val));
            }
        }
    }
    v
}

pub fn gen_edit(rng: &mut Rng, tree: &Tree, docs: &mut Docs) -> Option<Edit> {
    let files = files_of(tree);
    let dirs = dirs_of(tree);
    match rng.below(4) {
        0 | 1 if !files.is_empty() => Some(Edit::Write { path: rng.pick(&files).clone(), content: docs.content() }),
        2 => {
            let d = rng.pick(&dirs).clone();
            let key = join(&d, *rng.pick(TYP_NAMES));
            if tree.contains_key(&key) {
                return None;
            }
            Some(Edit::Write { path: key, content: docs.content() })
        }
        3 if !files.is_empty() => Some(Edit::Delete { path: rng.pick(&files).clone() }),
        _ => None,
    }
}

/// "Wrap-around" case: one process handles K = 2^k + 1 documents in an order the case controls
/// (a file list). The first document carries an attribute (`@typstyle off`), the last one has the
/// same tree shape without it and is the only one that is not formatted; everything in between
/// is formatted and of another shape. Anything that recycles per-document state modulo a power
/// of two gives the last document the first one's attributes.
fn gen_wraparound_case(seed: u64, profile: &str, params: &GenParams) -> Case {
    let mut rng = Rng::stream(seed, "wraparound");
    // a couple of cases per run (4 s each): more inputs in one process than a 16-bit
    // identifier can number (65 600 distinct paths in one `-i` list)
    if rng.chance(0.02) || std::env::var_os("VSIM_FORCE_HUGE").is_some() {
        let k = 65_600usize;
        let mut tree = Tree::new();
        tree.insert("w".into(), Node::Dir);
        let mut paths = Vec::with_capacity(k);
        for i in 0..k {
            let name = format!("{:x}.typ", i);
            tree.insert(format!("w/{}", name), Node::File("#let   a=1\n".into()));
            paths.push(name);
        }
        let mode = if params.focus == Focus::C14 { Mode::Check } else { Mode::Inplace };
        let inv = Inv { shape: Shape::Files { mode, paths }, style: StyleArgs::default(), verbosity: 1, check_after: false, cwd: "w".into(), stdin: None, plan: Vec::new(), shim_seed: 1, readdir: "sorted".into(), env: Vec::new(), debug: 0, dashdash: false };
        return Case { seed, profile: "nofault".to_string(), tree, steps: vec![Step::Inv(inv)], hardlinks: Vec::new() };
    }
    if rng.chance(0.25) {
        // every input fails: the number of failures is exactly a power of two (a status or a
        // counter that is a truncated count reads as "no failure")
        let k = *rng.pick(&[256usize, 256, 512, 255, 257]);
        let mut tree = Tree::new();
        tree.insert("w".into(), Node::Dir);
        let by_walk = rng.chance(0.4);
        let mut paths = Vec::new();
        for i in 0..k {
            let key = format!("w/m{:03}.typ", i);
            if by_walk {
                // eligible files that are not valid UTF-8
                tree.insert(key.clone(), Node::File(crate::util::Bytes(vec![b'#', 0xff, 0xfe, b'\n'])));
            }
            paths.push(key);
        }
        let check = params.focus == Focus::C14 || (params.focus == Focus::Mixed && rng.chance(0.5));
        let shape = if by_walk {
            Shape::FormatAll { check, dir: Some("w".into()), inplace: false }
        } else {
            Shape::Files { mode: if check { Mode::Check } else { Mode::Inplace }, paths }
        };
        let inv = Inv { shape, style: StyleArgs::default(), verbosity: 1, check_after: false, cwd: ".".into(), stdin: None, plan: Vec::new(), shim_seed: rng.next_u64() >> 1, readdir: "sorted".into(), env: Vec::new(), debug: 0, dashdash: false };
        return Case { seed, profile: profile.to_string(), tree, steps: vec![Step::Inv(inv)], hardlinks: Vec::new() };
    }
    let k = *rng.pick(&[65usize, 129, 256, 257, 257]);
    // variant: every document differs (counters of changed files at and beyond a power of two)
    let all_differ = rng.chance(0.3);
    let mut tree = Tree::new();
    tree.insert("w".into(), Node::Dir);
    let mut paths = Vec::new();
    for i in 0..k {
        let key = format!("w/f{:03}.typ", i);
        let text = if i == 0 {
            "// @typstyle off\n#let   zqwrapx1  =  (1,2 ,3)\n".to_string()
        } else if i == k - 1 {
            "// typstyle note\n#let   zqwrapx2  =  (1,2 ,3)\n".to_string()
        } else if all_differ {
            format!("=   Heading zqwrapx{}\n", i + 10)
        } else {
            format!("= Heading zqwrapx{}\n", i + 10)
        };
        tree.insert(key.clone(), Node::File(text.into()));
        paths.push(key);
    }
    let mode = match params.focus {
        Focus::C14 => Mode::Check,
        Focus::C15 => Mode::Inplace,
        Focus::C16 => *rng.pick(&[Mode::Stdout, Mode::Inplace]),
        Focus::Mixed => *rng.pick(&[Mode::Check, Mode::Inplace, Mode::Stdout]),
    };
    let inv = Inv {
        shape: Shape::Files { mode, paths },
        style: StyleArgs::default(),
        verbosity: 1,
        check_after: false,
        cwd: ".".into(),
        stdin: None,
        plan: Vec::new(),
        shim_seed: rng.next_u64() >> 1,
        readdir: "sorted".into(),
        env: Vec::new(),
        debug: 0,
        dashdash: false,
    };
    Case { seed, profile: profile.to_string(), tree, steps: vec![Step::Inv(inv)], hardlinks: Vec::new() }
}

/// a whole case without fault plans (plans are added per invocation by `plan::add_plan`, which
/// needs the model's view of the invocation)
pub fn gen_case(seed: u64, profile: &str, params: &GenParams, oracle: &mut Oracle) -> Case {
    let mut rng = Rng::stream(seed, "workload");
    if Rng::stream(seed, "case-kind").chance(0.003) || std::env::var_os("VSIM_FORCE_HUGE").is_some() {
        return gen_wraparound_case(seed, profile, params);
    }
    let main_style = gen_cfg(&mut Rng::stream(seed, "main-style"));
    let mut docs = Docs {
        rng: Rng::stream(seed, "world"),
        oracle,
        params,
        main_cfg: main_style.cfg(),
        counter: 0,
        seed,
    };
    let mut tree = gen_tree(&mut Rng::stream(seed, "tree"), &mut docs);
    // a second name for one of the files (a hard link: `cp -l` snapshots, package stores): an
    // ineligible name next to an eligible one, two eligible names, a name in another directory
    let mut hardlinks: Vec<(String, String)> = Vec::new();
    {
        let mut lr = Rng::stream(seed, "hardlinks");
        if lr.chance(0.06) {
            let files: Vec<String> = tree.iter().filter(|(k, n)| matches!(n, Node::File(_)) && k.ends_with(".typ")).map(|(k, _)| k.clone()).collect();
            if !files.is_empty() {
                let target = lr.pick(&files).clone();
                let dirs = dirs_of(&tree);
                let dir = if lr.chance(0.6) { parent(&target).to_string() } else { lr.pick(&dirs).clone() };
                let name = *lr.pick(&["aaa.txt", "doc.txt", "0snapshot", "hl.typ", "zz.typ", "copy.bak", "A0.typ"]);
                let key = join(&dir, name);
                if !tree.contains_key(&key) && (dir == "." || matches!(tree.get(&dir), Some(Node::Dir))) {
                    let bytes = tree.get(&target).cloned().unwrap();
                    tree.insert(key.clone(), bytes);
                    hardlinks.push((key, target));
                }
            }
        }
    }
    let tree = tree;
    let n_inv = match rng.below(10) {
        0..=2 => 1,
        3..=5 => 2,
        6..=8 => 3,
        _ => rng.range(4, 5),
    };
    let mut steps: Vec<Step> = Vec::new();
    // model tree only for choosing paths of later invocations; contents do not matter here
    let mut t = tree.clone();
    let pattern = rng.below(10);
    let mut prev: Option<Inv> = None;
    for i in 0..n_inv {
        if i > 0 && rng.chance(0.3) {
            if let Some(e) = gen_edit(&mut rng, &t, &mut docs) {
                super::world::apply_edit_model(&mut t, &e);
                steps.push(Step::Edit(e));
            }
        }
        let mut inv = gen_inv(&mut rng, &t, &mut docs, params.focus, &main_style);
        // biased histories: check -> fix -> check, fix -> fix
        if let Some(pv) = &prev {
            if pattern < 5 {
                let mut q = pv.clone();
                q.shim_seed = inv.shim_seed;
                q.readdir = inv.readdir.clone();
                if pattern == 4 {
                    // same files / directory, other style options: state kept from the previous
                    // invocation (a cache, a stamp file) must not leak into this one. Mostly exactly
                    // one dimension changes (a key that forgets one option is then decisive).
                    if rng.chance(0.65) {
                        match rng.below(3) {
                            0 => q.style.reorder = !q.style.reorder,
                            1 => q.style.column = Some(if rng.chance(0.5) { *rng.pick(special_columns()) } else { rng.range(0, 400) }),
                            _ => q.style.tab = Some(*rng.pick(&[0, 1, 2, 3, 4, 8, 16])),
                        }
                    } else {
                        q.style = gen_cfg(&mut rng);
                    }
                }
                q.shape = if pattern == 3 {
                    // the identical invocation again (a second run is a no-op; a third one too)
                    pv.shape.clone()
                } else {
                    match (&pv.shape, i % 2) {
                    (Shape::Files { paths, mode }, 1) => Shape::Files {
                        mode: match mode {
                            Mode::Check => Mode::Inplace,
                            Mode::Inplace => Mode::Check,
                            m => *m,
                        },
                        paths: if *mode == Mode::Check || *mode == Mode::Inplace { paths.clone() } else { gen_paths(&mut rng, &t, &q.cwd, *mode) },
                    },
                    (Shape::FormatAll { check, dir, inplace }, _) => Shape::FormatAll { check: if pattern < 3 { !*check } else { *check }, dir: dir.clone(), inplace: *inplace },
                    (s, _) => s.clone(),
                    }
                };
                // an -i list must not name symlinks (DESIGN 4.3) nor /dev/stdin
                if let Shape::Files { mode: Mode::Inplace, paths } = &q.shape {
                    let has_link = paths.iter().any(|p| p == "/dev/stdin" || resolve(&q.cwd, p).map(|k| matches!(t.get(&k), Some(Node::Symlink(_)))).unwrap_or(false));
                    if !has_link {
                        inv = q;
                    }
                } else {
                    inv = q;
                }
            }
        }
        prev = Some(inv.clone());
        steps.push(Step::Inv(inv));
    }
    // The model is path based: it stays exact in a world with hard links only as long as nothing
    // is written (two names, one inode: a write under one name changes what is read under the
    // other). So the second name is a real link only in histories of non-writing invocations -
    // check, stdout, stdin -; otherwise it stays an ordinary file with the same bytes.
    let writes = steps.iter().any(|s| match s {
        Step::Inv(i) => matches!(&i.shape, Shape::Files { mode: Mode::Inplace, .. } | Shape::FormatAll { check: false, .. }),
        // (a user edit writes through one name too)
        Step::Edit(_) => true,
    });
    if writes {
        hardlinks.clear();
    }
    Case { seed, profile: profile.to_string(), tree, steps, hardlinks }
}
