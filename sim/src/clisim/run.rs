//! Runs the real `typstyle` binary under the interposer and reads back everything observable.

use std::collections::BTreeSet;
use std::fs::{self, File};
use std::io;
use std::os::unix::process::ExitStatusExt;
use std::path::{Path, PathBuf};
use std::process::{Command, Stdio};

use super::types::Inv;

#[derive(Clone, Debug)]
pub struct Env {
    pub bin: PathBuf,
    pub shim: PathBuf,
    /// per-worker scratch: <base>/w = world root, <base>/io = stdin/stdout/stderr/trace files
    pub base: PathBuf,
}

impl Env {
    pub fn root(&self) -> PathBuf {
        self.base.join("w")
    }
    pub fn io(&self) -> PathBuf {
        self.base.join("io")
    }
    /// HOME of the simulated user: outside the world, wiped at the start of every case, kept
    /// across the invocations of a history (state a tool may legitimately keep there - a cache, a
    /// history file - must never change what the properties promise)
    pub fn home(&self) -> PathBuf {
        self.base.join("home")
    }
}

#[derive(Clone, Debug, Default)]
pub struct TraceEvent {
    pub seq: u64,
    pub sym: String,
    pub target: String,
    pub arg: i64,
    pub ret: i64,
    pub errno: Option<String>,
    /// (rule index, kind)
    pub fault: Option<(usize, String)>,
}

#[derive(Clone, Debug, Default)]
pub struct Outcome {
    /// Some(code) on normal exit, None if killed by a signal
    pub exit: Option<i32>,
    pub signal: Option<i32>,
    pub stdout: Vec<u8>,
    pub stderr: Vec<u8>,
    pub trace: Vec<TraceEvent>,
    pub trace_raw: String,
}

/// what the environment actually did to the process (read from the trace, not predicted)
#[derive(Clone, Debug, Default)]
pub struct Fired {
    pub read_failed: BTreeSet<String>,
    pub write_failed: BTreeSet<String>,
    pub walk_failed: BTreeSet<String>,
    pub stdin_failed: bool,
    pub std_stream_failed: bool,
    /// an advisory lock was refused (another process "holds" it)
    pub lock_refused: bool,
    /// pthread_create was refused
    pub thread_refused: bool,
    /// reads of standard input answered EAGAIN for a while (a stalled writer on a non-blocking
    /// pipe): the tool may give up with an I/O error or wait and read everything
    pub stdin_eagain: bool,
    /// writes to stdout/stderr answered EAGAIN for a while (a non-blocking pipe with a slow
    /// reader): the tool may give up (a failed standard stream) or wait and write everything
    pub std_stream_eagain: bool,
    /// files on which one read failed transiently (ETIMEDOUT/EAGAIN/EIO once, fine afterwards):
    /// the tool may report them as unreadable or try again and read everything
    pub transient_read: BTreeSet<String>,
    /// getcwd() failed (the current directory was deleted)
    pub cwd_failed: bool,
    /// a catchable signal was delivered mid-run (counts as `crashed` for the expectations)
    pub signalled: bool,
    pub crashed: bool,
    /// the interposer ended the run: the same persistent failure was answered to the same
    /// target thousands of times in a row (unbounded retry) - (target, kind)
    pub livelock: Option<(String, String)>,
    /// kinds that fired at least once, with counts (for evidence)
    pub kinds: Vec<(String, u64)>,
}

pub fn parse_trace(raw: &str) -> Vec<TraceEvent> {
    let mut v = Vec::new();
    for line in raw.lines() {
        // <seq> <sym> <target> <arg> -> <ret> [errno] [FAULT=i:kind]
        let Some((lhs, rhs)) = line.split_once(" -> ") else { continue };
        let mut l = lhs.splitn(3, ' ');
        let seq = l.next().and_then(|x| x.parse().ok()).unwrap_or(0);
        let sym = l.next().unwrap_or("").to_string();
        let rest = l.next().unwrap_or("");
        // target may contain spaces; arg is the last token
        let (target, arg) = match rest.rsplit_once(' ') {
            Some((t, a)) => (t.to_string(), a.parse().unwrap_or(0)),
            None => (rest.to_string(), 0),
        };
        let mut ev = TraceEvent { seq, sym, target, arg, ..Default::default() };
        for (i, tok) in rhs.split(' ').enumerate() {
            if i == 0 {
                ev.ret = tok.parse().unwrap_or(0);
            } else if let Some(f) = tok.strip_prefix("FAULT=") {
                if let Some((idx, kind)) = f.split_once(':') {
                    ev.fault = Some((idx.parse().unwrap_or(0), kind.to_string()));
                }
            } else if tok.starts_with('E') {
                ev.errno = Some(tok.to_string());
            }
        }
        v.push(ev);
    }
    v
}

pub fn fired(trace: &[TraceEvent]) -> Fired {
    let mut f = Fired::default();
    let mut counts: std::collections::BTreeMap<String, u64> = Default::default();
    for ev in trace {
        let Some((_, kind)) = &ev.fault else { continue };
        if ev.sym == "livelock" {
            f.livelock = Some((ev.target.clone(), kind.clone()));
            continue;
        }
        *counts.entry(kind.clone()).or_default() += 1;
        match kind.as_str() {
            "openr" | "stat" => {
                f.read_failed.insert(ev.target.clone());
            }
            "read" if ev.ret < 0 => {
                if ev.target == "@0" {
                    f.stdin_failed = true;
                } else {
                    f.read_failed.insert(ev.target.clone());
                }
            }
            "openw" => {
                f.write_failed.insert(ev.target.clone());
            }
            "rename" if ev.ret < 0 => {
                // the last step of a write through a temporary file
                f.write_failed.insert(ev.target.clone());
            }
            "write" if ev.ret < 0 => {
                if ev.target.starts_with('@') {
                    f.std_stream_failed = true;
                } else {
                    f.write_failed.insert(ev.target.clone());
                }
            }
            "opendir" | "readdir" if ev.ret < 0 => {
                f.walk_failed.insert(ev.target.clone());
            }
            "crash" => f.crashed = true,
            "signal" => {
                f.crashed = true;
                f.signalled = true;
            }
            "getcwd" => f.cwd_failed = true,
            "thread" => f.thread_refused = true,
            "eagain_read" if ev.ret < 0 && ev.target == "@0" => f.stdin_eagain = true,
            "eagain_write" if ev.ret < 0 => {
                // judged like a failed standard stream (the runtime's last flush at exit ignores
                // errors, so even exit status 0 cannot promise that everything went out); what did
                // go out has to be a prefix of the right text
                f.std_stream_eagain = true;
                f.std_stream_failed = true;
            }
            "tread" if ev.ret < 0 => {
                f.transient_read.insert(ev.target.clone());
            }
            "flock" if ev.ret < 0 => f.lock_refused = true,
            _ => {}
        }
    }
    f.kinds = counts.into_iter().collect();
    f
}

pub fn run_inv(env: &Env, inv: &Inv) -> io::Result<Outcome> {
    let root = env.root();
    let io_dir = env.io();
    fs::create_dir_all(&io_dir)?;
    let stdin_p = io_dir.join("stdin");
    let stdout_p = io_dir.join("stdout");
    let stderr_p = io_dir.join("stderr");
    let trace_p = io_dir.join("trace");
    fs::write(&stdin_p, inv.stdin.as_ref().map(|b| b.0.as_slice()).unwrap_or(&[]))?;
    let _ = fs::remove_file(&trace_p);
    let root_s = root.to_string_lossy().to_string();
    let cwd: PathBuf = if inv.cwd == "." { root.clone() } else { root.join(crate::util::os(&inv.cwd)) };
    let plan: Vec<String> = inv.plan.iter().map(|r| r.render()).collect();

    // `typstyle /dev/stdin`: standard input has to be a pipe then (a file could be re-read)
    let uses_dev_stdin = matches!(&inv.shape, super::types::Shape::Files { paths, .. } if paths.iter().any(|p| p == "/dev/stdin"));
    let mut cmd = Command::new(&env.bin);
    cmd.args(inv.argv(&root_s).iter().map(|a| crate::util::os(a)))
        .current_dir(&cwd)
        .env_clear()
        .env("LD_PRELOAD", &env.shim)
        .env("VSIM_ROOT", &root_s)
        .env("VSIM_TRACE", &trace_p)
        .env("VSIM_SEED", inv.shim_seed.to_string())
        .env("VSIM_READDIR", &inv.readdir)
        .env("VSIM_PLAN", crate::util::os(&plan.join(";")))
        .env("HOME", env.home())
        .envs(inv.env.iter().map(|(k, v)| (k.as_str(), v.as_str())))
        .env("RUST_BACKTRACE", "0")
        .stdin(if uses_dev_stdin { Stdio::piped() } else { stdin_carrier(inv, &stdin_p)? })
        .stdout(Stdio::from(File::create(&stdout_p)?))
        .stderr(Stdio::from(File::create(&stderr_p)?));
    // no pre_exec: std then uses posix_spawn (no page-table copy, no mmap_lock contention between
    // the 16 worker threads). A runaway child is killed by the kernel through RLIMIT_CPU set from
    // outside (reported as a harness error, never a verdict).
    let mut child = cmd.spawn()?;
    let feeder = if uses_dev_stdin {
        let mut pipe = child.stdin.take();
        let bytes = inv.stdin.as_ref().map(|b| b.0.clone()).unwrap_or_default();
        Some(std::thread::spawn(move || {
            use std::io::Write;
            if let Some(p) = pipe.as_mut() {
                let _ = p.write_all(&bytes);
            }
            drop(pipe);
        }))
    } else {
        None
    };
    unsafe {
        let lim = libc::rlimit { rlim_cur: 30, rlim_max: 40 };
        libc::prlimit(child.id() as libc::pid_t, libc::RLIMIT_CPU, &lim, std::ptr::null_mut());
    }
    // wall-clock watchdog: a child that blocks (on a FIFO, a lock, a terminal) burns no CPU, so
    // RLIMIT_CPU never fires; it is killed after 30 s and reported as a harness error
    watchdog::register(child.id());
    let status = child.wait();
    watchdog::unregister(child.id());
    let status = status?;
    if let Some(f) = feeder {
        let _ = f.join();
    }
    let trace_raw = crate::util::path_decode(&fs::read(&trace_p).unwrap_or_default());
    Ok(Outcome {
        exit: status.code(),
        signal: status.signal(),
        stdout: fs::read(&stdout_p)?,
        stderr: fs::read(&stderr_p)?,
        trace: parse_trace(&trace_raw),
        trace_raw,
    })
}

/// What standard input is, for an invocation that reads it (chosen by the invocation's own
/// seed, so a replay gets the same): mostly a regular file at offset 0; sometimes a regular file
/// whose beginning somebody else has already consumed through the shared descriptor
/// (`{ read -r header; typstyle; } < file`) - the document starts at the current offset, not at
/// byte 0 of the file; a pipe; a UNIX socket (what libuv-based tools give a child). Pipe and
/// socket are filled completely and closed before the child starts, so the sizes its reads
/// return do not depend on timing.
fn stdin_carrier(inv: &Inv, stdin_p: &Path) -> io::Result<Stdio> {
    use std::io::{Seek, SeekFrom, Write};
    use std::os::fd::FromRawFd;
    let bytes: &[u8] = inv.stdin.as_ref().map(|b| b.0.as_slice()).unwrap_or(&[]);
    let reads_stdin = matches!(inv.shape, super::types::Shape::Stdin { .. });
    let pick = if reads_stdin { inv.shim_seed % 8 } else { 7 };
    match pick {
        0 => {
            let prefix = b"#let   zqconsumed  =  ( 1,2 ,3 )\n";
            let mut f = File::options().read(true).write(true).create(true).truncate(true).open(stdin_p)?;
            f.write_all(prefix)?;
            f.write_all(bytes)?;
            f.seek(SeekFrom::Start(prefix.len() as u64))?;
            Ok(Stdio::from(f))
        }
        1..=3 if bytes.len() <= 60_000 => {
            let mut fds = [0 as libc::c_int; 2];
            let r = unsafe {
                if pick == 1 {
                    libc::socketpair(libc::AF_UNIX, libc::SOCK_STREAM | libc::SOCK_CLOEXEC, 0, fds.as_mut_ptr())
                } else {
                    libc::pipe2(fds.as_mut_ptr(), libc::O_CLOEXEC)
                }
            };
            if r != 0 {
                return Err(io::Error::last_os_error());
            }
            let mut w = unsafe { File::from_raw_fd(fds[1]) };
            let res = w.write_all(bytes);
            drop(w);
            let rd = unsafe { Stdio::from_raw_fd(fds[0]) };
            res?;
            Ok(rd)
        }
        _ => Ok(Stdio::from(File::open(stdin_p)?)),
    }
}

/// normalised log identity of one invocation: trace + exit + stdout/stderr with the world
/// root replaced, so that it is independent of which worker directory ran it
pub fn log_digest(env_root: &Path, out: &Outcome) -> u64 {
    crate::rng::fnv(log_text(env_root, out).as_bytes())
}

pub fn log_text(env_root: &Path, out: &Outcome) -> String {
    let root = env_root.to_string_lossy().to_string();
    let mut s = String::new();
    s.push_str(&out.trace_raw);
    s.push_str(&format!("exit={:?} sig={:?}\n", out.exit, out.signal));
    s.push_str(&strip_root(&out.stdout, &root));
    s.push_str("\n--\n");
    s.push_str(&strip_root(&out.stderr, &root));
    s
}

/// Replaces every occurrence of the world root - also one cut short by a failed or short write
/// in the middle of a path - by a placeholder, so that logs do not depend on the worker
/// directory or the pid.
pub fn strip_root(bytes: &[u8], root: &str) -> String {
    let r = root.as_bytes();
    let mut out: Vec<u8> = Vec::with_capacity(bytes.len());
    let mut i = 0;
    while i < bytes.len() {
        let mut m = 0;
        while m < r.len() && i + m < bytes.len() && bytes[i + m] == r[m] {
            m += 1;
        }
        // "/dev/shm/typ" = 12 bytes: long enough not to match ordinary text
        if m >= r.len().min(12) {
            if m == r.len() {
                out.extend_from_slice(b"{ROOT}");
            } else {
                out.extend_from_slice(format!("{{ROOT:{}}}", m).as_bytes());
            }
            i += m;
        } else {
            out.push(bytes[i]);
            i += 1;
        }
    }
    String::from_utf8_lossy(&out).to_string()
}

mod watchdog {
    use std::sync::{Mutex, OnceLock};
    use std::time::{Duration, Instant};

    static TABLE: OnceLock<Mutex<Vec<(u32, Instant)>>> = OnceLock::new();

    fn table() -> &'static Mutex<Vec<(u32, Instant)>> {
        TABLE.get_or_init(|| {
            std::thread::spawn(|| loop {
                std::thread::sleep(Duration::from_millis(250));
                if let Some(t) = TABLE.get() {
                    for (pid, since) in t.lock().unwrap().iter() {
                        if since.elapsed() > Duration::from_secs(30) {
                            unsafe { libc::kill(*pid as libc::pid_t, libc::SIGKILL) };
                        }
                    }
                }
            });
            Mutex::new(Vec::new())
        })
    }

    pub fn register(pid: u32) {
        table().lock().unwrap().push((pid, Instant::now()));
    }

    pub fn unregister(pid: u32) {
        table().lock().unwrap().retain(|(p, _)| *p != pid);
    }
}
