//! Executable reference model of the CLI, written from the statements of C14, C15, C16
//! (DESIGN.md 4.5/4.6) - not from fmt.rs. Given the tree before an invocation, the invocation,
//! and what the environment did to the process (fired faults, read from the trace), it says
//! what every path must look like afterwards, what the exit status must be and what stdout
//! must contain. All criteria are state based.

use std::collections::{BTreeMap, BTreeSet};

use super::run::{Fired, Outcome};
use super::types::*;
use super::world::Snapshot;
use crate::oracle::{Cfg, Fmt, Oracle};
use crate::util::{excerpt, first_diff};

#[derive(Clone, Debug, PartialEq, Eq)]
pub enum InputClass {
    Unreadable(&'static str),
    Erroneous,
    Formatted,
    Unformatted,
}

#[derive(Clone, Debug)]
pub struct InputInfo {
    /// path as named (lexically resolved world-relative key); "<stdin>" for stdin
    pub named: String,
    pub class: InputClass,
    pub len: usize,
}

#[derive(Clone, Debug, PartialEq, Eq)]
pub enum FileExpect {
    /// same bytes and pinned mtime
    Unchanged,
    /// exactly these bytes (mtime free)
    Exactly(Vec<u8>),
    /// a write fault fired on it (or the run crashed): untouched, a prefix of `new`, or `new`
    Torn { new: Vec<u8> },
    /// below a failed directory walk: untouched or completely and correctly written
    UnchangedOrExactly(Vec<u8>),
}

#[derive(Clone, Debug, PartialEq, Eq)]
pub enum Level {
    /// all invariants of the shape
    Full,
    /// only prefix-closed safety: crash, failed std stream
    Safety,
}

#[derive(Clone, Debug)]
pub struct Prediction {
    pub inputs: Vec<InputInfo>,
    pub files: BTreeMap<String, FileExpect>,
    /// expected stdout bytes where the statements determine them
    pub stdout: Option<Vec<u8>>,
    /// safety level (a standard stream failed or stalled, the process was killed): what reached
    /// stdout must be a prefix of this - output may be lost, never wrong
    pub stdout_prefix_of: Option<Vec<u8>>,
    /// identifiers of input documents that must not show up on stdout (check modes)
    pub markers: Vec<String>,
    pub level: Level,
    pub any_unformatted: bool,
    pub any_unreadable: bool,
    pub walk_fault: bool,
    /// targets on which an injected write failure (open for writing, write, rename) fired
    pub write_faulted: Vec<String>,
    /// a directory that is part of the walk (not pruned as hidden) could not be opened / read:
    /// an I/O error occurred that check mode must report
    pub walk_fault_visible: bool,
    /// getcwd() failed while the walked directory had to be the current one: the tool may go on
    /// with "." or report an I/O error
    pub cwd_fault: bool,
    pub oracle_unavailable: bool,
    /// the model cannot predict this invocation (e.g. DIR is not a directory): only "paths the
    /// model does not expect to change" are compared
    pub unmodelled: Option<&'static str>,
    pub is_check: bool,
    pub writes_expected: usize,
    /// a file named more than once in an `-i` list whose formatted text is not a fixed point: the
    /// statement does not say how often such a file is formatted, so every iterate up to the
    /// number of times it is named is "exactly the formatted text" (a tool may well process a
    /// file once however often it is named)
    pub also_ok: BTreeMap<String, Vec<Vec<u8>>>,
}

/// identifiers `zq<base36>x<digits>` occurring in a text
pub fn markers_in(text: &str) -> Vec<String> {
    let b = text.as_bytes();
    let mut out = Vec::new();
    let mut i = 0;
    while i + 3 < b.len() {
        if b[i] == b'z' && b[i + 1] == b'q' {
            let mut j = i + 2;
            while j < b.len() && (b[j].is_ascii_digit() || (b[j].is_ascii_lowercase() && b[j] != b'x')) {
                j += 1;
            }
            if j > i + 2 && j < b.len() && b[j] == b'x' {
                let mut k = j + 1;
                while k < b.len() && b[k].is_ascii_digit() {
                    k += 1;
                }
                if k > j + 1 {
                    out.push(text[i..k].to_string());
                    i = k;
                    continue;
                }
            }
        }
        i += 1;
    }
    out.sort();
    out.dedup();
    out
}

/// eligibility for format-all, from the statement of C15: a regular file whose name ends in
/// ".typ", below DIR, not hidden and not inside a hidden sub-directory. DIR's own name is
/// irrelevant.
pub fn eligible(tree: &Tree, dir: &str) -> Vec<String> {
    let mut v = Vec::new();
    for (key, node) in tree {
        if !is_below(key, dir) {
            continue;
        }
        if !matches!(node, Node::File(_)) {
            continue;
        }
        let rel = if dir == "." { key.as_str() } else { &key[dir.len() + 1..] };
        if rel.split('/').any(|c| c.starts_with('.')) {
            continue;
        }
        let name = file_name(key);
        // "*.typ": extension is exactly "typ" (a bare ".typ" is a hidden file without extension)
        if !(name.len() > 4 && name.ends_with(".typ")) {
            continue;
        }
        v.push(key.clone());
    }
    v
}

fn classify(bytes: &[u8], cfg: Cfg, oracle: &mut Oracle) -> Result<(InputClass, Option<String>), ()> {
    let Ok(text) = std::str::from_utf8(bytes) else {
        return Ok((InputClass::Unreadable("invalid UTF-8"), None));
    };
    match oracle.fmt(text, cfg) {
        Fmt::Panic => Err(()),
        Fmt::Erroneous => Ok((InputClass::Erroneous, None)),
        Fmt::Ok(s) if s == text => Ok((InputClass::Formatted, None)),
        Fmt::Ok(s) => Ok((InputClass::Unformatted, Some(s))),
    }
}

pub fn predict(tree: &Tree, inv: &Inv, fired: &Fired, oracle: &mut Oracle) -> Prediction {
    let cfg = inv.style.cfg();
    let mut p = Prediction {
        inputs: Vec::new(),
        files: tree.keys().map(|k| (k.clone(), FileExpect::Unchanged)).collect(),
        stdout: None,
        stdout_prefix_of: None,
        markers: Vec::new(),
        level: if fired.crashed || fired.std_stream_failed || fired.lock_refused { Level::Safety } else { Level::Full },
        any_unformatted: false,
        any_unreadable: false,
        walk_fault: !fired.walk_failed.is_empty(),
        write_faulted: fired.write_failed.iter().cloned().collect(),
        walk_fault_visible: false,
        cwd_fault: false,
        oracle_unavailable: false,
        unmodelled: None,
        is_check: inv.is_check(),
        writes_expected: 0,
        also_ok: BTreeMap::new(),
    };
    let safety = p.level == Level::Safety;
    // working copy: in-place processing of a list is sequential
    let mut work: Tree = tree.clone();
    let mut stdout: Vec<u8> = Vec::new();
    let mut markers: BTreeSet<String> = BTreeSet::new();

    match &inv.shape {
        Shape::Stdin { check } => {
            let bytes = inv.stdin.as_ref().map(|b| b.0.clone()).unwrap_or_default();
            let (class, new) = if fired.stdin_failed {
                (InputClass::Unreadable("stdin read error"), None)
            } else {
                match classify(&bytes, cfg, oracle) {
                    Ok(x) => x,
                    Err(()) => {
                        p.oracle_unavailable = true;
                        return p;
                    }
                }
            };
            if let Ok(t) = std::str::from_utf8(&bytes) {
                markers.extend(markers_in(t));
            }
            match &class {
                InputClass::Unreadable(_) => p.any_unreadable = true,
                InputClass::Erroneous | InputClass::Formatted => stdout.extend_from_slice(&bytes),
                InputClass::Unformatted => {
                    p.any_unformatted = true;
                    stdout.extend_from_slice(new.as_ref().unwrap().as_bytes());
                }
            }
            p.inputs.push(InputInfo { named: "<stdin>".into(), class, len: bytes.len() });
            if !*check && !safety {
                p.stdout = Some(stdout);
            } else if !*check {
                p.stdout_prefix_of = Some(stdout);
            }
        }
        Shape::Files { mode, paths } => {
            let mut seen_named: BTreeSet<String> = BTreeSet::new();
            // The interposer names a path by cancelling `name/..` textually; the kernel does not.
            // Where the two disagree (`..` after a link to a directory, a component that is
            // missing or a regular file) and an injected open/read/write fault has hit the textual
            // name, the fault may have landed on another input's file than the one the rule was
            // written for: no verdict for this invocation.
            for path in paths.iter().filter(|p| *p != "/dev/stdin") {
                let lex = resolve(&inv.cwd, path);
                if lex != resolve_phys(&work, &inv.cwd, path).ok() {
                    if let Some(l) = &lex {
                        if fired.read_failed.contains(l) || fired.write_failed.contains(l) {
                            p.oracle_unavailable = true;
                            return p;
                        }
                    }
                }
            }
            for path in paths {
                if path == "/dev/stdin" {
                    // `gen | typstyle /dev/stdin`: a path whose content is the (piped) standard
                    // input - not a regular file, cannot be read twice, st_size 0
                    let bytes = inv.stdin.as_ref().map(|b| b.0.clone()).unwrap_or_default();
                    if let Ok(t) = std::str::from_utf8(&bytes) {
                        markers.extend(markers_in(t));
                    }
                    // a second occurrence finds the pipe at end of file
                    let first = !p.inputs.iter().any(|i| i.named == "/dev/stdin");
                    let bytes = if first { bytes } else { Vec::new() };
                    let (class, new) = match classify(&bytes, cfg, oracle) {
                        Ok(x) => x,
                        Err(()) => {
                            p.oracle_unavailable = true;
                            return p;
                        }
                    };
                    match &class {
                        InputClass::Unreadable(_) => p.any_unreadable = true,
                        InputClass::Erroneous | InputClass::Formatted => stdout.extend_from_slice(&bytes),
                        InputClass::Unformatted => {
                            p.any_unformatted = true;
                            stdout.extend_from_slice(new.as_ref().unwrap().as_bytes());
                            if *mode == Mode::Inplace {
                                p.unmodelled = Some("-i on /dev/stdin");
                            }
                        }
                    }
                    p.inputs.push(InputInfo { named: "/dev/stdin".into(), class, len: bytes.len() });
                    continue;
                }
                let lex = resolve(&inv.cwd, path);
                let named = match resolve_phys(&work, &inv.cwd, path) {
                    Ok(k) => k,
                    Err(PathErr::Leaves) => {
                        p.unmodelled = Some("path leaves the world");
                        return p;
                    }
                    Err(e) => {
                        p.any_unreadable = true;
                        let why = match e {
                            PathErr::NotDir => "a component is not a directory",
                            PathErr::Loop => "too many links",
                            _ => "missing",
                        };
                        p.inputs.push(InputInfo { named: lex.unwrap_or_else(|| path.clone()), class: InputClass::Unreadable(why), len: 0 });
                        continue;
                    }
                };
                let faulted = |set: &BTreeSet<String>| set.contains(&named);
                let dup = !seen_named.insert(named.clone());
                let target = follow(&work, &named);
                let node = target.as_ref().and_then(|t| work.get(t)).cloned();
                let (class, new, len) = match node {
                    _ if faulted(&fired.read_failed) => (InputClass::Unreadable("injected read fault"), None, 0),
                    None => (InputClass::Unreadable("missing"), None, 0),
                    Some(Node::Dir) => (InputClass::Unreadable("is a directory"), None, 0),
                    Some(Node::Symlink(_)) => (InputClass::Unreadable("symlink loop"), None, 0),
                    Some(Node::File(b)) => {
                        if let Ok(t) = std::str::from_utf8(&b.0) {
                            markers.extend(markers_in(t));
                        }
                        match classify(&b.0, cfg, oracle) {
                            Ok((c, n)) => (c, n, b.0.len()),
                            Err(()) => {
                                p.oracle_unavailable = true;
                                return p;
                            }
                        }
                    }
                };
                match &class {
                    InputClass::Unreadable(_) => p.any_unreadable = true,
                    InputClass::Erroneous | InputClass::Formatted => {
                        if let Some(Node::File(b)) = target.as_ref().and_then(|t| work.get(t)) {
                            stdout.extend_from_slice(&b.0);
                        }
                    }
                    InputClass::Unformatted => {
                        p.any_unformatted = true;
                        let new = new.clone().unwrap();
                        stdout.extend_from_slice(new.as_bytes());
                        if *mode == Mode::Inplace {
                            let t = target.clone().unwrap();
                            let torn = faulted(&fired.write_failed) || safety;
                            if torn && (dup || paths.iter().filter(|q| resolve_phys(&work, &inv.cwd, q).ok().as_ref() == Some(&named)).count() > 1) {
                                // a torn file that is read again later in the same list: not predictable
                                p.unmodelled = Some("write fault on a path listed twice");
                            }
                            if let Some(FileExpect::Exactly(earlier)) = p.files.get(&t) {
                                let e = earlier.clone();
                                p.also_ok.entry(t.clone()).or_default().push(e);
                            }
                            p.files.insert(
                                t.clone(),
                                if torn { FileExpect::Torn { new: new.clone().into_bytes() } } else { FileExpect::Exactly(new.clone().into_bytes()) },
                            );
                            p.writes_expected += 1;
                            work.insert(t, Node::File(new.into()));
                        }
                    }
                }
                p.inputs.push(InputInfo { named, class, len });
            }
            if *mode == Mode::Stdout && !safety {
                p.stdout = Some(stdout);
            } else if *mode == Mode::Stdout {
                p.stdout_prefix_of = Some(stdout);
            }
            if *mode == Mode::InplaceCheck {
                // usage error: nothing is processed
                p.files = tree.keys().map(|k| (k.clone(), FileExpect::Unchanged)).collect();
            }
        }
        Shape::FormatAll { check, dir, .. } => {
            let given = dir.as_deref().unwrap_or(".");
            let Some(lex_key) = resolve(&inv.cwd, given) else {
                p.unmodelled = Some("DIR leaves the world");
                return p;
            };
            // a DIR that is (or leads through) a link to a directory: the walk starts at the
            // directory the kernel reaches
            let dir_key = match resolve_phys(tree, &inv.cwd, given).ok().and_then(|k| follow(tree, &k)) {
                Some(k) => k,
                None => {
                    p.unmodelled = Some("DIR is not a directory");
                    return p;
                }
            };
            let dir_is_dir = dir_key == "." || matches!(tree.get(&dir_key), Some(Node::Dir));
            if !dir_is_dir {
                // the statements are silent about a DIR that is missing or not a directory
                p.unmodelled = Some("DIR is not a directory");
                return p;
            }
            // the interposer names what the tool touches by the path it was given: translate
            let translated;
            let fired = if lex_key != dir_key {
                let tr = |set: &BTreeSet<String>| -> BTreeSet<String> {
                    set.iter()
                        .map(|k| {
                            if *k == lex_key {
                                dir_key.clone()
                            } else if is_below(k, &lex_key) {
                                let rest = if lex_key == "." { k.as_str() } else { &k[lex_key.len() + 1..] };
                                if dir_key == "." { rest.to_string() } else { format!("{}/{}", dir_key, rest) }
                            } else {
                                k.clone()
                            }
                        })
                        .collect()
                };
                let mut f = fired.clone();
                f.read_failed = tr(&fired.read_failed);
                f.write_failed = tr(&fired.write_failed);
                f.walk_failed = tr(&fired.walk_failed);
                translated = f;
                &translated
            } else {
                fired
            };
            p.cwd_fault = fired.cwd_failed && dir.is_none();
            for d in &fired.walk_failed {
                let pruned = if *d == dir_key {
                    false
                } else if is_below(d, &dir_key) {
                    let rel = if dir_key == "." { d.as_str() } else { &d[dir_key.len() + 1..] };
                    rel.split('/').any(|c| c.starts_with('.'))
                } else {
                    true // outside the walk altogether
                };
                if !pruned {
                    p.walk_fault_visible = true;
                }
            }
            for key in eligible(tree, &dir_key) {
                let Some(Node::File(b)) = tree.get(&key) else { continue };
                if let Ok(t) = std::str::from_utf8(&b.0) {
                    markers.extend(markers_in(t));
                }
                let (class, new) = if fired.read_failed.contains(&key) {
                    (InputClass::Unreadable("injected read fault"), None)
                } else {
                    match classify(&b.0, cfg, oracle) {
                        Ok(x) => x,
                        Err(()) => {
                            p.oracle_unavailable = true;
                            return p;
                        }
                    }
                };
                let below_failed_walk = fired
                    .walk_failed
                    .iter()
                    .any(|d| is_below(&key, d) || d == "." || *d == dir_key);
                match &class {
                    InputClass::Unreadable(_) => {
                        if !below_failed_walk {
                            p.any_unreadable = true
                        }
                    }
                    InputClass::Unformatted => {
                        if !below_failed_walk {
                            p.any_unformatted = true;
                        }
                        if !*check {
                            let new = new.unwrap().into_bytes();
                            let e = if fired.write_failed.contains(&key) || safety {
                                // (Torn also admits "untouched", so it covers a failed walk too)
                                FileExpect::Torn { new }
                            } else if below_failed_walk || p.cwd_fault {
                                FileExpect::UnchangedOrExactly(new)
                            } else {
                                FileExpect::Exactly(new)
                            };
                            p.files.insert(key.clone(), e);
                            p.writes_expected += 1;
                        }
                    }
                    _ => {}
                }
                p.inputs.push(InputInfo { named: key.clone(), class, len: b.0.len() });
            }
        }
    }
    p.markers = markers.into_iter().collect();
    p
}

fn viol(props: &[&str], inv_id: &str, step: usize, msg: String) -> Violation {
    Violation { property: props.join(","), invariant: inv_id.into(), step, message: msg }
}

/// Compare what happened with what the statements require. Returns every violated invariant,
/// each tagged with the properties it belongs to.
pub fn check(
    step: usize,
    before: &Tree,
    before_seen: &Snapshot,
    inv: &Inv,
    pred: &Prediction,
    after: &Snapshot,
    out: &Outcome,
) -> Vec<Violation> {
    let mut v = Vec::new();
    if pred.oracle_unavailable {
        return v;
    }
    let check_mode = pred.is_check;
    let write_mode = matches!(
        &inv.shape,
        Shape::Files { mode: Mode::Inplace, .. } | Shape::FormatAll { check: false, .. }
    );
    // which properties a tree violation belongs to
    let tree_props: &[&str] = if check_mode { &["C14"] } else if write_mode { &["C15"] } else { &["C15", "C14"] };

    // ---- every path that existed before
    let mut unrecovered_write_failure = false;
    for (key, expect) in &pred.files {
        let before_node = before.get(key);
        let Some(seen) = after.get(key) else {
            v.push(viol(tree_props, if check_mode { "I14.1-tree" } else { "I15.2-untouched" }, step, format!("path {:?} disappeared", key)));
            continue;
        };
        let same_mtime = before_seen.get(key).map(|b| b.mtime == seen.mtime).unwrap_or(false);
        let unchanged = Some(&seen.node) == before_node && (matches!(seen.node, Node::Dir) || same_mtime);
        let bytes_now: Option<&[u8]> = match &seen.node {
            Node::File(b) => Some(&b.0),
            _ => None,
        };
        match expect {
            FileExpect::Unchanged => {
                // another name of a file that was (to be) rewritten under its eligible name shares
                // its inode: it shows the new content too when the tool writes in place (and keeps
                // the old one when the tool replaces the file) - both are fine
                let via_other_name = write_mode
                    && before_seen.get(key).is_some_and(|b| {
                        b.nlink > 1
                            && before_seen.iter().any(|(k2, b2)| {
                                k2 != key && b2.ino == b.ino && matches!(pred.files.get(k2), Some(FileExpect::Exactly(_)) | Some(FileExpect::Torn { .. }) | Some(FileExpect::UnchangedOrExactly(_))) && after.get(k2).map(|s2| &s2.node) == Some(&seen.node)
                            })
                    });
                if !unchanged && !via_other_name {
                    let what = if Some(&seen.node) != before_node { "content" } else { "modification time" };
                    let id = if check_mode { "I14.1-tree" } else { "I15.2-untouched" };
                    v.push(viol(tree_props, id, step, format!("{} of {:?} changed although it must not ({})", what, key, describe(inv, pred, key))));
                }
            }
            FileExpect::Exactly(new) => {
                if pred.unmodelled.is_some() {
                    continue;
                }
                let iterate = pred.also_ok.get(key).is_some_and(|alts| alts.iter().any(|a| bytes_now == Some(a.as_slice())));
                if bytes_now != Some(new.as_slice()) && !iterate {
                    let now = bytes_now.unwrap_or(b"<not a file>");
                    let d = first_diff(now, new);
                    let msg = if unchanged {
                        format!("{:?} should have been rewritten with the formatted text but was left untouched", key)
                    } else {
                        format!(
                            "{:?} does not hold the library's formatted text for {:?}: first difference at byte {} (have {:?}, want {:?})",
                            key,
                            inv.style.cfg(),
                            d,
                            excerpt(&now[d.min(now.len())..], 40),
                            excerpt(&new[d.min(new.len())..], 40)
                        )
                    };
                    if unchanged {
                        // (C16 too: for the in-place front-ends the text they "yield" is what the
                        // file holds afterwards, and that is not the library's text for these options)
                        v.push(viol(&["C15", "C16"], "I15.1-notwritten", step, msg));
                    } else {
                        v.push(viol(&["C15", "C16"], "I15.1-written", step, msg));
                    }
                }
            }
            FileExpect::Torn { new } => {
                if pred.unmodelled.is_some() {
                    // e.g. the path is listed twice and the run was cut short: which of the two
                    // writes was interrupted where is not predictable
                    continue;
                }
                let now = bytes_now.unwrap_or(b"<not a file>");
                let ok_old = unchanged || matches!((before_node, &seen.node), (Some(a), b) if a == b);
                let ok_new = now == new.as_slice();
                let ok_prefix = new.starts_with(now);
                // an implementation that overwrites in place and cuts the rest off afterwards
                // leaves the beginning of the new text followed by the rest of the old one
                let old_bytes: Option<&[u8]> = match before_node {
                    Some(Node::File(b)) => Some(b.0.as_slice()),
                    _ => None,
                };
                let ok_overlay = old_bytes.map_or(false, |old| {
                    let k = now.iter().zip(new.iter()).take_while(|(a, b)| a == b).count();
                    // the longest common prefix with the new text is the only candidate that matters:
                    // from there on everything must be the old text at the same offsets
                    (0..=k).rev().take(64).any(|k| now.len() == old.len().max(k) && k <= now.len() && now[k..] == old[k.min(old.len())..])
                });
                if !ok_new {
                    unrecovered_write_failure = true;
                }
                if !(ok_old || ok_new || ok_prefix || ok_overlay) {
                    v.push(viol(&["C15"], "I15.1-torn", step, format!("{:?}: after an injected write failure / crash the file holds neither its old bytes, nor a prefix of the formatted text (alone or followed by the rest of the old text), nor the formatted text", key)));
                }
            }
            FileExpect::UnchangedOrExactly(new) => {
                if !(unchanged || bytes_now == Some(new.as_slice())) {
                    v.push(viol(&["C15"], "I15.1-walkfault", step, format!("{:?} (below a failed directory read) is neither untouched nor correctly formatted", key)));
                }
            }
        }
    }
    // ---- no new path remains (not under a crash / failed std stream: an implementation that
    // writes through a temporary file cannot avoid leaving it behind when it is killed)
    for key in after.keys() {
        if pred.level == Level::Safety {
            break;
        }
        if !before.contains_key(key) {
            // in a writing mode, a new *hidden* entry (a cache or state directory of the tool, such
            // as `.tool_cache/`) is not for these properties to forbid; check mode is read-only
            let first_new = {
                let mut acc = String::new();
                let mut found = key.clone();
                for comp in key.split('/') {
                    if !acc.is_empty() {
                        acc.push('/');
                    }
                    acc.push_str(comp);
                    if !before.contains_key(&acc) {
                        found = comp.to_string();
                        break;
                    }
                }
                found
            };
            if write_mode && first_new.starts_with('.') && !first_new.ends_with(".typ") {
                continue;
            }
            v.push(viol(tree_props, if check_mode { "I14.1-tree" } else { "I15.2-untouched" }, step, format!("new path {:?} exists after the invocation", key)));
        }
    }
    if pred.unmodelled.is_some() {
        return v;
    }

    // ---- stdout (with a debug option the front-end dumps the syntax tree / layout document
    // there, identifiers included: no property speaks about that text, so stdout is not judged)
    if inv.debug == 0 && (check_mode || matches!(&inv.shape, Shape::Files { mode: Mode::InplaceCheck, .. })) {
        let so = String::from_utf8_lossy(&out.stdout);
        for m in &pred.markers {
            if so.contains(m.as_str()) {
                v.push(viol(&["C14"], "I14.2-stdout", step, format!("check mode printed document text: identifier {} appears on stdout", m)));
                break;
            }
        }
    }
    if let Some(want) = pred.stdout.as_ref().filter(|_| inv.debug == 0) {
        if &out.stdout != want {
            let d = first_diff(&out.stdout, want);
            let id = if matches!(inv.shape, Shape::Stdin { .. }) { "I16.2-stdin" } else { "I16.1-stdout" };
            v.push(viol(
                &["C16"],
                id,
                step,
                format!(
                    "stdout differs from the library result for {:?}: {} bytes vs {} expected, first difference at byte {} (have {:?}, want {:?})",
                    inv.style.cfg(),
                    out.stdout.len(),
                    want.len(),
                    d,
                    excerpt(&out.stdout[d.min(out.stdout.len())..], 40),
                    excerpt(&want[d.min(want.len())..], 40)
                ),
            ));
        }
    }

    // ---- what did reach stdout although a standard stream failed or stalled, or the process was
    // killed: output may be lost, but it is never wrong - a prefix of the right text (a writer
    // that starts over after a partial write prints its beginning twice)
    // (only for a process that claims success: one that reports the trouble with a non-zero exit
    // status may have gone on with its other inputs, leaving a hole - its output is not trusted by
    // anybody; found by refactor R14, which does exactly that)
    if let Some(want) = pred.stdout_prefix_of.as_ref().filter(|_| inv.debug == 0 && pred.unmodelled.is_none() && out.exit == Some(0)) {
        if !want.starts_with(&out.stdout) {
            let d = first_diff(&out.stdout, want);
            let id = if matches!(inv.shape, Shape::Stdin { .. }) { "I16.2-stdin-garbled" } else { "I16.1-stdout-garbled" };
            v.push(viol(
                &["C16"],
                id,
                step,
                format!(
                    "what reached stdout is not a prefix of the library result for {:?}: first difference at byte {} of {} (have {:?}, want {:?})",
                    inv.style.cfg(),
                    d,
                    out.stdout.len(),
                    excerpt(&out.stdout[d.min(out.stdout.len())..], 40),
                    excerpt(&want[d.min(want.len())..], 40)
                ),
            ));
        }
    }

    // ---- exit status when a standard stream failed (not a crash): the statement's exact value
    // cannot be demanded (the tool may die on the failed print), but claiming success - exit 0 -
    // while an input differs or could not be read is untruthful whatever happened to stdout
    if pred.level == Level::Safety && check_mode && out.exit == Some(0) && out.signal.is_none() && (pred.any_unformatted || pred.any_unreadable) && !pred.walk_fault && pred.unmodelled.is_none() {
        let crashed = out.trace.iter().any(|e| e.sym == "crash");
        if !crashed && !matches!(&inv.shape, Shape::Files { mode: Mode::InplaceCheck, .. }) {
            v.push(viol(
                &["C14"],
                "I14.3-exit-stdstream",
                step,
                format!("check mode exit status 0 after a failed write to stdout/stderr (or a refused lock) although an input differs or is unreadable (inputs: {})", summarise_inputs(pred)),
            ));
        }
    }
    // the same for the writing modes: a failed input (unreadable, or an injected write failure
    // that left the target incomplete) must not end in exit 0 just because stdout/stderr broke
    if pred.level == Level::Safety && write_mode && out.exit == Some(0) && out.signal.is_none() && !pred.walk_fault && pred.unmodelled.is_none() && !out.trace.iter().any(|e| e.sym == "crash") {
        let write_failure_left_incomplete = pred.write_faulted.iter().any(|k| match (pred.files.get(k), after.get(k)) {
            (Some(FileExpect::Torn { new }), Some(seen)) => !matches!(&seen.node, Node::File(b) if b.0 == *new),
            _ => false,
        });
        if pred.any_unreadable || write_failure_left_incomplete {
            v.push(viol(
                &["C15"],
                "I15.4-exit-stdstream",
                step,
                format!("a failure on one input was not reported: exit status 0 after a failed write to stdout/stderr or a refused lock (inputs: {})", summarise_inputs(pred)),
            ));
        }
    }
    // ---- exit status
    if pred.level == Level::Full {
        // (inputs below a failed directory read are not counted in any_unformatted/any_unreadable)
        let io_error = pred.any_unreadable || unrecovered_write_failure;
        match &inv.shape {
            Shape::Files { mode: Mode::InplaceCheck, .. } => {}
            // `-i ... format-all --check`: whether the option parser rejects the combination
            // (usage error, exit 2, nothing processed) or runs it as a check is its business
            Shape::FormatAll { check: true, inplace: true, .. } if out.exit == Some(2) => {}
            _ if check_mode && pred.cwd_fault => {
                // an I/O error occurred (exit 1), unless the tool got along without asking where it
                // is - then the ordinary answer
                let normal = if pred.any_unformatted || io_error { 1 } else { 0 };
                if out.exit != Some(1) && out.exit != Some(normal) {
                    v.push(viol(&["C14"], "I14.3-exit", step, format!("check mode exit status {:?} after getcwd() failed, expected 1 (or {} if the current directory is not needed) (inputs: {})", out.exit, normal, summarise_inputs(pred))));
                }
            }
            _ if write_mode && pred.cwd_fault => {
                let incomplete = pred.files.iter().any(|(k, e)| matches!(e, FileExpect::UnchangedOrExactly(new) if !matches!(after.get(k).map(|s| &s.node), Some(Node::File(b)) if b.0 == *new)));
                if (incomplete || io_error) && out.exit == Some(0) {
                    v.push(viol(&["C15"], "I15.4-exit", step, format!("exit status 0 although getcwd() failed and eligible files were not formatted (inputs: {})", summarise_inputs(pred))));
                }
            }
            _ if check_mode => {
                let want: Option<i32> = if pred.any_unformatted || io_error || pred.walk_fault_visible {
                    Some(1)
                } else if pred.walk_fault {
                    None // only a pruned (hidden) directory failed: the statement does not decide
                } else {
                    Some(0)
                };
                if let Some(want) = want {
                    if out.exit != Some(want) {
                        v.push(viol(
                            &["C14"],
                            "I14.3-exit",
                            step,
                            format!(
                                "check mode exit status {:?}, expected {} (inputs: {}{})",
                                out.exit,
                                want,
                                summarise_inputs(pred),
                                if pred.walk_fault_visible { "; a walked directory could not be read: an I/O error occurred" } else { "" }
                            ),
                        ));
                    }
                }
            }
            _ if write_mode => {
                if io_error && out.exit == Some(0) {
                    v.push(viol(
                        &["C15"],
                        "I15.4-exit",
                        step,
                        format!("a failure on one input was not reported: exit status 0 (inputs: {})", summarise_inputs(pred)),
                    ));
                }
            }
            _ => {}
        }
    }
    v
}

pub fn summarise_inputs(pred: &Prediction) -> String {
    let mut s = Vec::new();
    for i in pred.inputs.iter().take(12) {
        let c = match &i.class {
            InputClass::Unreadable(w) => format!("unreadable[{}]", w),
            InputClass::Erroneous => "erroneous".into(),
            InputClass::Formatted => "formatted".into(),
            InputClass::Unformatted => "unformatted".into(),
        };
        s.push(format!("{}={}", i.named, c));
    }
    if pred.inputs.len() > 12 {
        s.push(format!("... {} more", pred.inputs.len() - 12));
    }
    s.join(" ")
}

fn describe(_inv: &Inv, pred: &Prediction, key: &str) -> String {
    match pred.inputs.iter().find(|i| i.named == key) {
        Some(i) => format!("input, class {:?}", i.class),
        None => "not an eligible input".into(),
    }
}
