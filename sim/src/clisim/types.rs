//! Explicit, serialisable description of one simulated execution of engine A: a file tree, a
//! history of CLI invocations (with their fault plans) and user edits. A replay file is one
//! `Case` plus the invariant that failed.

use std::collections::BTreeMap;

use serde::{Deserialize, Serialize};

use crate::oracle::Cfg;
use crate::util::Bytes;

#[derive(Serialize, Deserialize, Clone, Debug, PartialEq, Eq)]
pub enum Node {
    Dir,
    File(Bytes),
    /// target as stored in the link (relative to the link's directory)
    Symlink(String),
}

/// world-relative paths ('/' separated, no leading "./"); the root itself is implicit
pub type Tree = BTreeMap<String, Node>;

#[derive(Serialize, Deserialize, Clone, Copy, Debug, PartialEq, Eq, Hash)]
pub enum Mode {
    Stdout,
    Inplace,
    Check,
    /// `-i --check`: rejected by clap; only "tree untouched" is asserted
    InplaceCheck,
}

#[derive(Serialize, Deserialize, Clone, Debug, PartialEq, Eq)]
pub enum Shape {
    Files { mode: Mode, paths: Vec<String> },
    Stdin { check: bool },
    /// `inplace`: `-i` given before the subcommand (accepted by clap; must not change anything:
    /// format-all writes anyway, and with --check it must stay read-only)
    FormatAll { check: bool, dir: Option<String>, #[serde(default)] inplace: bool },
}

#[derive(Serialize, Deserialize, Clone, Debug, PartialEq, Eq, Default)]
pub struct StyleArgs {
    pub column: Option<usize>,
    pub tab: Option<usize>,
    pub reorder: bool,
    /// bit 0: long name for column, bit 1: '=' form for column, bit 2/3: same for tab-width
    pub spelling: u32,
    /// style options placed after the subcommand / positional arguments (they are `global`)
    pub after: bool,
    /// format-all with the options after the subcommand: the same options also given *before*
    /// it, with these other values (`typstyle -c 40 format-all -c 80`: an alias or wrapper script
    /// overridden on the spot). The occurrence after the subcommand is the one that counts.
    #[serde(default)]
    pub pre_column: Option<usize>,
    #[serde(default)]
    pub pre_tab: Option<usize>,
}

impl StyleArgs {
    pub fn cfg(&self) -> Cfg {
        Cfg {
            column: self.column.unwrap_or(80),
            tab: self.tab.unwrap_or(2),
            reorder: self.reorder,
            blank: 2,
        }
    }

    pub fn render(&self) -> Vec<String> {
        let mut v = Vec::new();
        if let Some(c) = self.column {
            let name = if self.spelling & 1 != 0 { "--column" } else { "-c" };
            if self.spelling & 2 != 0 {
                v.push(format!("{}={}", name, c));
            } else {
                v.push(name.to_string());
                v.push(c.to_string());
            }
        }
        if let Some(t) = self.tab {
            let name = if self.spelling & 4 != 0 { "--tab-width" } else { "-t" };
            if self.spelling & 8 != 0 {
                v.push(format!("{}={}", name, t));
            } else {
                v.push(name.to_string());
                v.push(t.to_string());
            }
        }
        if self.reorder {
            v.push("--reorder-import-items".into());
        }
        v
    }
}

#[derive(Serialize, Deserialize, Clone, Debug, PartialEq, Eq)]
pub struct Rule {
    pub kind: String,
    pub sel: String,
    pub when: String,
    pub arg: String,
}

impl Rule {
    pub fn new(kind: &str, sel: &str, when: impl ToString, arg: impl ToString) -> Rule {
        Rule { kind: kind.into(), sel: sel.into(), when: when.to_string(), arg: arg.to_string() }
    }
    pub fn render(&self) -> String {
        format!("{}:{}:{}:{}", self.kind, self.sel, self.when, self.arg)
    }
    /// transparent by construction: must never change tree, exit status or stdout
    pub fn is_benign(&self) -> bool {
        matches!(
            self.kind.as_str(),
            "short_read" | "short_write" | "eintr_read" | "eintr_write" | "eintr_open" | "clockjump" | "statsize" | "tty" | "devno"
        )
    }
}

#[derive(Serialize, Deserialize, Clone, Debug, PartialEq, Eq)]
pub struct Inv {
    pub shape: Shape,
    pub style: StyleArgs,
    /// 0 none, 1 -q, 2 -v, 3 --quiet, 4 --verbose
    pub verbosity: u8,
    /// `--check` placed after the subcommand / positionals
    pub check_after: bool,
    /// world-relative directory the process is started in ("." = world root)
    pub cwd: String,
    pub stdin: Option<Bytes>,
    pub plan: Vec<Rule>,
    pub shim_seed: u64,
    pub readdir: String,
    /// environment of the process (besides the interposer's own variables): the result must not
    /// depend on it
    #[serde(default)]
    pub env: Vec<(String, String)>,
    /// debug options of the front-end: bit 0 `-a`/`--ast`, bit 1 `-p`/`--pretty-doc`, bit 2 long
    /// spelling. They print extra text on stdout (which no property speaks about: with them
    /// stdout is not judged) and must change nothing else: tree, exit status, what is written.
    #[serde(default)]
    pub debug: u8,
    /// file lists only: every option comes first, then `--`, then the paths - and paths whose name
    /// starts with '-' are written without the protecting "./"
    #[serde(default)]
    pub dashdash: bool,
}

impl Inv {
    pub fn is_check(&self) -> bool {
        match &self.shape {
            Shape::Files { mode, .. } => matches!(mode, Mode::Check | Mode::InplaceCheck),
            Shape::Stdin { check } => *check,
            Shape::FormatAll { check, .. } => *check,
        }
    }

    /// argv after the program name; `{ROOT}` in paths is replaced by the world root at run time
    pub fn argv(&self, root: &str) -> Vec<String> {
        let sub = |p: &String| p.replace("{ROOT}", root);
        let mut pre: Vec<String> = Vec::new();
        let mut post: Vec<String> = Vec::new();
        let style = self.style.render();
        if self.style.after {
            post.extend(style);
            if matches!(self.shape, Shape::FormatAll { .. }) {
                if let (Some(c), Some(_)) = (self.style.pre_column, self.style.column) {
                    pre.push("-c".into());
                    pre.push(c.to_string());
                }
                if let (Some(t), Some(_)) = (self.style.pre_tab, self.style.tab) {
                    pre.push(format!("--tab-width={}", t));
                }
            }
        } else {
            pre.extend(style);
        }
        if self.debug & 1 != 0 {
            pre.push(if self.debug & 4 != 0 { "--ast".into() } else { "-a".into() });
        }
        if self.debug & 2 != 0 {
            pre.push(if self.debug & 4 != 0 { "--pretty-doc".into() } else { "-p".into() });
        }
        match self.verbosity {
            1 => pre.push("-q".into()),
            2 => pre.push("-v".into()),
            3 => post.push("--quiet".into()),
            4 => post.push("--verbose".into()),
            _ => {}
        }
        let check_flag = |pre: &mut Vec<String>, post: &mut Vec<String>| {
            if self.check_after {
                post.push("--check".into())
            } else {
                pre.push("--check".into())
            }
        };
        let mut mid: Vec<String> = Vec::new();
        match &self.shape {
            Shape::Files { mode, paths } => {
                match mode {
                    Mode::Stdout => {}
                    Mode::Inplace => pre.push(if self.style.spelling & 16 != 0 { "--inplace".into() } else { "-i".into() }),
                    Mode::Check => check_flag(&mut pre, &mut post),
                    Mode::InplaceCheck => {
                        pre.push("-i".into());
                        check_flag(&mut pre, &mut post);
                    }
                }
                mid.extend(paths.iter().map(sub));
            }
            Shape::Stdin { check } => {
                if *check {
                    check_flag(&mut pre, &mut post);
                }
            }
            Shape::FormatAll { check, dir, inplace } => {
                if *inplace {
                    pre.push(if self.style.spelling & 16 != 0 { "--inplace".into() } else { "-i".into() });
                }
                if *check {
                    check_flag(&mut pre, &mut post);
                }
                mid.push("format-all".into());
                if let Some(d) = dir {
                    mid.push(sub(d));
                }
            }
        }
        let mut v = pre;
        if self.dashdash && matches!(self.shape, Shape::Files { .. }) {
            v.extend(post);
            v.push("--".into());
            v.extend(mid.into_iter().map(|p| match p.strip_prefix("./") {
                Some(rest) if rest.starts_with('-') => rest.to_string(),
                _ => p,
            }));
            return v;
        }
        v.extend(mid);
        v.extend(post);
        v
    }
}

#[derive(Serialize, Deserialize, Clone, Debug, PartialEq, Eq)]
pub enum Edit {
    Write { path: String, content: Bytes },
    Delete { path: String },
}

#[derive(Serialize, Deserialize, Clone, Debug, PartialEq, Eq)]
pub enum Step {
    Inv(Inv),
    Edit(Edit),
}

#[derive(Serialize, Deserialize, Clone, Debug, PartialEq, Eq)]
pub struct Case {
    pub seed: u64,
    /// nofault | benign | hard
    pub profile: String,
    pub tree: Tree,
    pub steps: Vec<Step>,
    /// hard links: (name, existing file) - both are in `tree` as files with the same bytes; on disk
    /// the name is a second link to the file's inode
    #[serde(default)]
    pub hardlinks: Vec<(String, String)>,
}

/// a violated invariant
#[derive(Serialize, Deserialize, Clone, Debug, PartialEq, Eq)]
pub struct Violation {
    pub property: String,
    /// stable invariant id, e.g. "I14.3-exit"
    pub invariant: String,
    pub step: usize,
    pub message: String,
}

#[derive(Serialize, Deserialize, Clone, Debug)]
pub struct Replay {
    pub engine: String,
    pub case: Case,
    pub violation: Violation,
    /// digest of the run's normalised event log, to prove exact replay
    pub log_digest: u64,
    pub note: String,
}

/// lexical resolution of a command-line path against cwd; returns a world-relative key
/// ("." for the world root) or None if it leaves the world
pub fn resolve(cwd: &str, p: &str) -> Option<String> {
    let mut parts: Vec<&str> = Vec::new();
    let p = if let Some(rest) = p.strip_prefix("{ROOT}") {
        rest
    } else {
        if p.starts_with('/') {
            return None;
        }
        for c in cwd.split('/') {
            if !c.is_empty() && c != "." {
                parts.push(c);
            }
        }
        p
    };
    for c in p.split('/') {
        match c {
            "" | "." => {}
            ".." => {
                parts.pop()?;
            }
            c => parts.push(c),
        }
    }
    if parts.is_empty() {
        Some(".".into())
    } else {
        Some(parts.join("/"))
    }
}

#[derive(Debug, Clone, Copy, PartialEq, Eq)]
pub enum PathErr {
    /// leaves the world (or is absolute): not modelled
    Leaves,
    /// a component in the middle does not exist
    Missing,
    /// a component in the middle (or the last one, before a trailing slash) is not a directory
    NotDir,
    /// more than 40 symbolic links on the way
    Loop,
}

/// Resolution of a command-line path the way the kernel does it: symbolic links in the middle of
/// the path are followed, and `..` is the parent of the directory actually reached - which is
/// not what cancelling `name/..` textually gives once `name` is a link to a directory elsewhere.
/// Returns the key of the last component (which may be a link itself, or missing; see `follow`);
/// with a trailing slash the last component has to lead to a directory.
pub fn resolve_phys(tree: &Tree, cwd: &str, p: &str) -> Result<String, PathErr> {
    let mut cur: Vec<String> = Vec::new();
    let rest = if let Some(rest) = p.strip_prefix("{ROOT}") {
        rest
    } else {
        if p.starts_with('/') {
            return Err(PathErr::Leaves);
        }
        cur.extend(cwd.split('/').filter(|c| !c.is_empty() && *c != ".").map(String::from));
        p
    };
    let trailing = rest.ends_with('/');
    let mut queue: std::collections::VecDeque<String> = rest.split('/').filter(|c| !c.is_empty() && *c != ".").map(String::from).collect();
    let mut budget = 40;
    while let Some(c) = queue.pop_front() {
        if c == ".." {
            if cur.pop().is_none() {
                return Err(PathErr::Leaves);
            }
            continue;
        }
        let key = if cur.is_empty() { c.clone() } else { format!("{}/{}", cur.join("/"), c) };
        if queue.is_empty() && !trailing {
            return Ok(key);
        }
        match tree.get(&key) {
            None => return Err(PathErr::Missing),
            Some(Node::File(_)) => return Err(PathErr::NotDir),
            Some(Node::Dir) => cur.push(c),
            Some(Node::Symlink(t)) => {
                budget -= 1;
                if budget == 0 {
                    return Err(PathErr::Loop);
                }
                if t.starts_with('/') {
                    return Err(PathErr::Leaves);
                }
                for part in t.split('/').filter(|c| !c.is_empty() && *c != ".").rev() {
                    queue.push_front(part.to_string());
                }
            }
        }
    }
    if cur.is_empty() {
        Ok(".".into())
    } else {
        Ok(cur.join("/"))
    }
}

pub fn parent(key: &str) -> &str {
    match key.rfind('/') {
        Some(i) => &key[..i],
        None => ".",
    }
}

pub fn file_name(key: &str) -> &str {
    match key.rfind('/') {
        Some(i) => &key[i + 1..],
        None => key,
    }
}

/// is `key` strictly below directory `dir` ("." = root)?
pub fn is_below(key: &str, dir: &str) -> bool {
    if dir == "." {
        return key != ".";
    }
    key.len() > dir.len() + 1 && key.starts_with(dir) && key.as_bytes()[dir.len()] == b'/'
}

/// follow file symlinks inside the tree; returns the final key if it stays in the world
pub fn follow(tree: &Tree, key: &str) -> Option<String> {
    let mut cur = key.to_string();
    for _ in 0..8 {
        match tree.get(&cur) {
            Some(Node::Symlink(t)) => {
                cur = resolve(parent(&cur), t)?;
            }
            _ => return Some(cur),
        }
    }
    None
}
