//! Explicit, serialisable description of one simulated execution of engine A: a file tree, a
//! history of CLI invocations (with their fault plans) and user edits. A replay file is one
//! `Case` plus the invariant that failed.

use std::collections::BTreeMap;

use serde::{Deserialize, Serialize};

use crate::oracle::Cfg;
use crate::util::Bytes;

#[derive(Serialize, Deserialize, Clone, Debug, PartialEq, Eq)]
pub enum Node {
    Dir,
    File(Bytes),
    /// target as stored in the link (relative to the link's directory)
    Symlink(String),
}

/// world-relative paths ('/' separated, no leading "./"); the root itself is implicit
pub type Tree = BTreeMap<String, Node>;

#[derive(Serialize, Deserialize, Clone, Copy, Debug, PartialEq, Eq, Hash)]
pub enum Mode {
    Stdout,
    Inplace,
    Check,
    /// `-i --check`: rejected by clap; only "tree untouched" is asserted
    InplaceCheck,
}

#[derive(Serialize, Deserialize, Clone, Debug, PartialEq, Eq)]
pub enum Shape {
    Files { mode: Mode, paths: Vec<String> },
    Stdin { check: bool },
    /// `inplace`: `-i` given before the subcommand (accepted by clap; must not change anything:
    /// format-all writes anyway, and with --check it must stay read-only)
    FormatAll { check: bool, dir: Option<String>, #[serde(default)] inplace: bool },
}

#[derive(Serialize, Deserialize, Clone, Debug, PartialEq, Eq, Default)]
pub struct StyleArgs {
    pub column: Option<usize>,
    pub tab: Option<usize>,
    pub reorder: bool,
    /// bit 0: long name for column, bit 1: '=' form for column, bit 2/3: same for tab-width
    pub spelling: u32,
    /// style options placed after the subcommand / positional arguments (they are `global`)
    pub after: bool,
}

impl StyleArgs {
    pub fn cfg(&self) -> Cfg {
        Cfg {
            column: self.column.unwrap_or(80),
            tab: self.tab.unwrap_or(2),
            reorder: self.reorder,
            blank: 2,
        }
    }

    pub fn render(&self) -> Vec<String> {
        let mut v = Vec::new();
        if let Some(c) = self.column {
            let name = if self.spelling & 1 != 0 { "--column" } else { "-c" };
            if self.spelling & 2 != 0 {
                v.push(format!("{}={}", name, c));
            } else {
                v.push(name.to_string());
                v.push(c.to_string());
            }
        }
        if let Some(t) = self.tab {
            let name = if self.spelling & 4 != 0 { "--tab-width" } else { "-t" };
            if self.spelling & 8 != 0 {
                v.push(format!("{}={}", name, t));
            } else {
                v.push(name.to_string());
                v.push(t.to_string());
            }
        }
        if self.reorder {
            v.push("--reorder-import-items".into());
        }
        v
    }
}

#[derive(Serialize, Deserialize, Clone, Debug, PartialEq, Eq)]
pub struct Rule {
    pub kind: String,
    pub sel: String,
    pub when: String,
    pub arg: String,
}

impl Rule {
    pub fn new(kind: &str, sel: &str, when: impl ToString, arg: impl ToString) -> Rule {
        Rule { kind: kind.into(), sel: sel.into(), when: when.to_string(), arg: arg.to_string() }
    }
    pub fn render(&self) -> String {
        format!("{}:{}:{}:{}", self.kind, self.sel, self.when, self.arg)
    }
    /// transparent by construction: must never change tree, exit status or stdout
    pub fn is_benign(&self) -> bool {
        matches!(
            self.kind.as_str(),
            "short_read" | "short_write" | "eintr_read" | "eintr_write" | "eintr_open" | "clockjump" | "statsize" | "tty" | "devno"
        )
    }
}

#[derive(Serialize, Deserialize, Clone, Debug, PartialEq, Eq)]
pub struct Inv {
    pub shape: Shape,
    pub style: StyleArgs,
    /// 0 none, 1 -q, 2 -v, 3 --quiet, 4 --verbose
    pub verbosity: u8,
    /// `--check` placed after the subcommand / positionals
    pub check_after: bool,
    /// world-relative directory the process is started in ("." = world root)
    pub cwd: String,
    pub stdin: Option<Bytes>,
    pub plan: Vec<Rule>,
    pub shim_seed: u64,
    pub readdir: String,
    /// environment of the process (besides the interposer's own variables): the result must not
    /// depend on it
    #[serde(default)]
    pub env: Vec<(String, String)>,
}

impl Inv {
    pub fn is_check(&self) -> bool {
        match &self.shape {
            Shape::Files { mode, .. } => matches!(mode, Mode::Check | Mode::InplaceCheck),
            Shape::Stdin { check } => *check,
            Shape::FormatAll { check, .. } => *check,
        }
    }

    /// argv after the program name; `{ROOT}` in paths is replaced by the world root at run time
    pub fn argv(&self, root: &str) -> Vec<String> {
        let sub = |p: &String| p.replace("{ROOT}", root);
        let mut pre: Vec<String> = Vec::new();
        let mut post: Vec<String> = Vec::new();
        let style = self.style.render();
        if self.style.after {
            post.extend(style);
        } else {
            pre.extend(style);
        }
        match self.verbosity {
            1 => pre.push("-q".into()),
            2 => pre.push("-v".into()),
            3 => post.push("--quiet".into()),
            4 => post.push("--verbose".into()),
            _ => {}
        }
        let check_flag = |pre: &mut Vec<String>, post: &mut Vec<String>| {
            if self.check_after {
                post.push("--check".into())
            } else {
                pre.push("--check".into())
            }
        };
        let mut mid: Vec<String> = Vec::new();
        match &self.shape {
            Shape::Files { mode, paths } => {
                match mode {
                    Mode::Stdout => {}
                    Mode::Inplace => pre.push(if self.style.spelling & 16 != 0 { "--inplace".into() } else { "-i".into() }),
                    Mode::Check => check_flag(&mut pre, &mut post),
                    Mode::InplaceCheck => {
                        pre.push("-i".into());
                        check_flag(&mut pre, &mut post);
                    }
                }
                mid.extend(paths.iter().map(sub));
            }
            Shape::Stdin { check } => {
                if *check {
                    check_flag(&mut pre, &mut post);
                }
            }
            Shape::FormatAll { check, dir, inplace } => {
                if *inplace {
                    pre.push(if self.style.spelling & 16 != 0 { "--inplace".into() } else { "-i".into() });
                }
                if *check {
                    check_flag(&mut pre, &mut post);
                }
                mid.push("format-all".into());
                if let Some(d) = dir {
                    mid.push(sub(d));
                }
            }
        }
        let mut v = pre;
        v.extend(mid);
        v.extend(post);
        v
    }
}

#[derive(Serialize, Deserialize, Clone, Debug, PartialEq, Eq)]
pub enum Edit {
    Write { path: String, content: Bytes },
    Delete { path: String },
}

#[derive(Serialize, Deserialize, Clone, Debug, PartialEq, Eq)]
pub enum Step {
    Inv(Inv),
    Edit(Edit),
}

#[derive(Serialize, Deserialize, Clone, Debug, PartialEq, Eq)]
pub struct Case {
    pub seed: u64,
    /// nofault | benign | hard
    pub profile: String,
    pub tree: Tree,
    pub steps: Vec<Step>,
}

/// a violated invariant
#[derive(Serialize, Deserialize, Clone, Debug, PartialEq, Eq)]
pub struct Violation {
    pub property: String,
    /// stable invariant id, e.g. "I14.3-exit"
    pub invariant: String,
    pub step: usize,
    pub message: String,
}

#[derive(Serialize, Deserialize, Clone, Debug)]
pub struct Replay {
    pub engine: String,
    pub case: Case,
    pub violation: Violation,
    /// digest of the run's normalised event log, to prove exact replay
    pub log_digest: u64,
    pub note: String,
}

/// lexical resolution of a command-line path against cwd; returns a world-relative key
/// ("." for the world root) or None if it leaves the world
pub fn resolve(cwd: &str, p: &str) -> Option<String> {
    let mut parts: Vec<&str> = Vec::new();
    let p = if let Some(rest) = p.strip_prefix("{ROOT}") {
        rest
    } else {
        if p.starts_with('/') {
            return None;
        }
        for c in cwd.split('/') {
            if !c.is_empty() && c != "." {
                parts.push(c);
            }
        }
        p
    };
    for c in p.split('/') {
        match c {
            "" | "." => {}
            ".." => {
                parts.pop()?;
            }
            c => parts.push(c),
        }
    }
    if parts.is_empty() {
        Some(".".into())
    } else {
        Some(parts.join("/"))
    }
}

pub fn parent(key: &str) -> &str {
    match key.rfind('/') {
        Some(i) => &key[..i],
        None => ".",
    }
}

pub fn file_name(key: &str) -> &str {
    match key.rfind('/') {
        Some(i) => &key[i + 1..],
        None => key,
    }
}

/// is `key` strictly below directory `dir` ("." = root)?
pub fn is_below(key: &str, dir: &str) -> bool {
    if dir == "." {
        return key != ".";
    }
    key.len() > dir.len() + 1 && key.starts_with(dir) && key.as_bytes()[dir.len()] == b'/'
}

/// follow file symlinks inside the tree; returns the final key if it stays in the world
pub fn follow(tree: &Tree, key: &str) -> Option<String> {
    let mut cur = key.to_string();
    for _ in 0..8 {
        match tree.get(&cur) {
            Some(Node::Symlink(t)) => {
                cur = resolve(parent(&cur), t)?;
            }
            _ => return Some(cur),
        }
    }
    None
}
