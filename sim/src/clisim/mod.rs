//! Engine A: the real CLI under a simulated OS boundary (C14, C15, C16).
pub mod exec;
pub mod model;
pub mod plan;
pub mod run;
pub mod shrink;
pub mod types;
pub mod workload;
pub mod world;
