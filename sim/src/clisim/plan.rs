//! Fault plans (DESIGN.md 4.4). Placement is by path and byte offset, i.e. *inside* the
//! operations that create in-flight state: in the middle of a read, between the read and the
//! write of the same file, on the second of three targets.

use super::model::{self, FileExpect, Prediction};
use super::run::Fired;
use super::types::*;
use crate::oracle::Oracle;
use crate::rng::Rng;

const CAPS: &[usize] = &[1, 2, 3, 5, 7, 16, 64, 511, 1000, 4095, 4096, 8191, 65536];

fn benign_rule(rng: &mut Rng, pred: &Prediction) -> Rule {
    let any_input = || -> String { "*".into() };
    match rng.below(11) {
        10 => Rule::new("tty", *rng.pick(&["@1", "@2", "@1"]), 0, 1),
        9 => {
            // the size the file claims to have is not the size it has (special files report 0;
            // a file may grow between stat and read): the reader must read to end of file
            let sel = if !pred.inputs.is_empty() && rng.chance(0.5) {
                let i = rng.below(pred.inputs.len());
                pred.inputs[i].named.clone()
            } else {
                "*".to_string()
            };
            Rule::new("statsize", &sel, 0, *rng.pick(&[0usize, 0, 1, 7, 100]))
        }
        0 | 1 => {
            let sel = if !pred.inputs.is_empty() && rng.chance(0.3) {
                let i = rng.below(pred.inputs.len());
                let n = &pred.inputs[i].named;
                if n == "<stdin>" { "@0".to_string() } else { n.clone() }
            } else if rng.chance(0.3) {
                "@0".into()
            } else {
                any_input()
            };
            Rule::new("short_read", &sel, 0, rng.pick(CAPS))
        }
        2 | 3 => {
            let sel = *rng.pick(&["*", "@1", "@2", "**"]);
            Rule::new("short_write", sel, 0, rng.pick(CAPS))
        }
        4 => Rule::new("eintr_read", *rng.pick(&["*", "@0", "**"]), rng.below(4), "-"),
        5 => Rule::new("eintr_write", *rng.pick(&["*", "@1", "@2", "**"]), rng.below(4), "-"),
        6 => Rule::new("eintr_open", "*", rng.below(4), "-"),
        _ => Rule::new("clockjump", "-", rng.range(1, 2), *rng.pick(&[1i64, 999_999_999, 3_600_000_000_000, 86_400_000_000_000_000, 400_000_000_000_000_000, -3_600_000_000_000, -86_400_000_000_000])),
    }
}

#[derive(Clone, Copy, Debug, PartialEq, Eq)]
pub enum HardKind {
    OpenR,
    ReadMid,
    OpenW,
    WriteMid,
    OpenDir,
    ReadDir,
    StdinEio,
    StdStream,
    Crash,
}

fn pick_position<T: Clone>(rng: &mut Rng, xs: &[T]) -> Option<T> {
    if xs.is_empty() {
        return None;
    }
    // bias to first / last / middle
    Some(match rng.below(4) {
        0 => xs[0].clone(),
        1 => xs[xs.len() - 1].clone(),
        _ => xs[rng.below(xs.len())].clone(),
    })
}

/// Adds a fault plan to `inv` according to the profile. `events_hint` is the number of trace
/// events of a fault-free run (for crash placement), if known.
pub fn add_plan(rng: &mut Rng, profile: &str, tree: &Tree, inv: &mut Inv, oracle: &mut Oracle, events_hint: usize) {
    inv.plan.clear();
    if profile == "nofault" {
        inv.readdir = "sorted".into();
        return;
    }
    let pred = model::predict(tree, inv, &Fired::default(), oracle);
    let nb = match rng.below(6) {
        0 => 0,
        1 | 2 => 1,
        3 | 4 => 2,
        _ => 3,
    };
    for _ in 0..nb {
        let r = benign_rule(rng, &pred);
        // (a syntax-tree dump of some megabytes through one-byte writes is millions of events)
        if inv.debug != 0 && r.kind == "short_write" && (r.sel == "@1" || r.sel == "**") {
            continue;
        }
        inv.plan.push(r);
    }
    // a mount point below the walked directory: one sub-directory reports another device number
    if let Shape::FormatAll { dir, .. } = &inv.shape {
        if rng.chance(0.15) {
            let d = resolve(&inv.cwd, dir.as_deref().unwrap_or(".")).unwrap_or(".".into());
            let subs: Vec<String> = tree.iter().filter(|(k, n)| matches!(n, Node::Dir) && is_below(k, &d)).map(|(k, _)| k.clone()).collect();
            if !subs.is_empty() {
                let s = rng.pick(&subs).clone();
                inv.plan.push(Rule::new("devno", &s, 0, rng.range(1, 9)));
            }
        }
    }
    // A read-only world: every open for writing (O_WRONLY or O_RDWR) of anything in the world
    // fails, as on a read-only mount or with files the user may read but not write. For the
    // modes that must not write at all - check, stdout, stdin - this has to be transparent.
    let non_writing = inv.is_check() || matches!(&inv.shape, Shape::Files { mode: Mode::Stdout, .. } | Shape::Stdin { .. });
    if non_writing && rng.chance(0.25) {
        inv.plan.push(Rule::new("openw", "*", 1, *rng.pick(&["EROFS", "EACCES", "EPERM"])));
    }
    if profile != "hard" {
        return;
    }
    // not every invocation of a faulty history is faulty itself: "fault, then the same command
    // again without one" (recovery) needs a clean successor
    if rng.chance(0.35) {
        return;
    }
    if rng.chance(0.06) {
        // no new threads for this process (address-space limit, RLIMIT_NPROC, pids cgroup)
        inv.plan.push(Rule::new("thread", "*", 1, "EAGAIN"));
    }
    if inv.stdin.is_some() && rng.chance(0.1) {
        // the writer of a non-blocking stdin stalls: some reads answer EAGAIN, then data flows again
        inv.plan.push(Rule::new("eagain_read", "@0", rng.range(1, 3), rng.range(1, 12)));
    }
    if rng.chance(0.02) || (matches!(&inv.shape, Shape::FormatAll { dir: None, .. }) && rng.chance(0.12)) {
        // the current directory was deleted under the process
        inv.plan.push(Rule::new("getcwd", "*", 1, *rng.pick(&["ENOENT", "ENOENT", "EACCES", "ESTALE"])));
    }
    if rng.chance(0.1) {
        // somebody else holds every advisory lock the process asks for
        inv.plan.push(Rule::new("flock", "*", 1, *rng.pick(&["EWOULDBLOCK", "EWOULDBLOCK", "ENOLCK"])));
    }
    let nh = if rng.chance(0.75) { 1 } else { 2 };
    let readable_inputs: Vec<(String, usize)> = pred
        .inputs
        .iter()
        .filter(|i| i.named != "<stdin>" && !matches!(i.class, model::InputClass::Unreadable(_)))
        .map(|i| (i.named.clone(), i.len))
        .collect();
    // a hard fault on a path listed twice makes the later read unpredictable: avoid
    let listed_twice = |name: &str| pred.inputs.iter().filter(|i| i.named == name).count() > 1;
    let targets: Vec<(String, usize)> = pred
        .files
        .iter()
        .filter_map(|(k, e)| match e {
            FileExpect::Exactly(n) => Some((k.clone(), n.len())),
            _ => None,
        })
        .collect();
    let walk_dirs: Vec<String> = match &inv.shape {
        Shape::FormatAll { dir, .. } => {
            let d = resolve(&inv.cwd, dir.as_deref().unwrap_or(".")).unwrap_or(".".into());
            let mut v = vec![d.clone()];
            v.extend(tree.iter().filter(|(k, n)| matches!(n, Node::Dir) && is_below(k, &d)).map(|(k, _)| k.clone()));
            v
        }
        _ => vec![],
    };
    for _ in 0..nh {
        let mut extra: Vec<Rule> = Vec::new();
        let mut w = [10u32, 10, 14, 14, 4, 4, 3, 3, 5];
        if readable_inputs.is_empty() {
            w[0] = 0;
            w[1] = 0;
        }
        if targets.is_empty() {
            w[2] = 0;
            w[3] = 0;
        }
        if walk_dirs.is_empty() {
            w[4] = 0;
            w[5] = 0;
        }
        if !matches!(inv.shape, Shape::Stdin { .. }) {
            w[6] = 0;
        }
        let kinds = [
            HardKind::OpenR,
            HardKind::ReadMid,
            HardKind::OpenW,
            HardKind::WriteMid,
            HardKind::OpenDir,
            HardKind::ReadDir,
            HardKind::StdinEio,
            HardKind::StdStream,
            HardKind::Crash,
        ];
        let rule = match kinds[rng.weighted(&w)] {
            HardKind::OpenR => pick_position(rng, &readable_inputs).filter(|(p, _)| !listed_twice(p)).map(|(p, _)| {
                if rng.chance(0.25) {
                    // the file cannot be looked at in any way: stat and lstat of the path fail too
                    // (a directory the user may list but not search, a stale handle)
                    let e = *rng.pick(&["EACCES", "EACCES", "EIO", "ESTALE"]);
                    extra.push(Rule::new("stat", &p, 1, e));
                    Rule::new("openr", &p, 1, e)
                } else {
                    Rule::new("openr", &p, 1, *rng.pick(&["EACCES", "EIO", "EMFILE", "ENOENT", "EPERM"]))
                }
            }),
            HardKind::ReadMid => pick_position(rng, &readable_inputs).filter(|(p, _)| !listed_twice(p)).map(|(p, len)| {
                let k = match rng.below(4) {
                    0 => 0,
                    1 => len,
                    _ => rng.below(len + 1),
                };
                if rng.chance(0.25) {
                    // transient: fails once, then the file reads fine (a tool may give up or retry)
                    Rule::new("tread", &p, format!("+{}", k), *rng.pick(&["ETIMEDOUT", "EAGAIN", "EIO"]))
                } else {
                    Rule::new("read", &p, format!("+{}", k), "EIO")
                }
            }),
            HardKind::OpenW => pick_position(rng, &targets).filter(|(p, _)| !listed_twice(p)).map(|(p, _)| {
                if rng.chance(0.15) {
                    // never fires on an implementation that writes in place; one that renames a
                    // temporary file over the target meets its write failure here
                    Rule::new("rename", &p, 1, *rng.pick(&["EACCES", "EXDEV", "ENOSPC", "EPERM", "EBUSY"]))
                } else {
                    Rule::new("openw", &p, 1, *rng.pick(&["EACCES", "EROFS", "ENOSPC", "EDQUOT", "EPERM", "ETXTBSY"]))
                }
            }),
            HardKind::WriteMid => pick_position(rng, &targets).filter(|(p, _)| !listed_twice(p)).map(|(p, len)| {
                let k = match rng.below(4) {
                    0 => 0,
                    1 => len.saturating_sub(1),
                    _ => rng.below(len.max(1)),
                };
                Rule::new("write", &p, format!("+{}", k), *rng.pick(&["ENOSPC", "EIO", "EDQUOT", "EFBIG"]))
            }),
            HardKind::OpenDir => pick_position(rng, &walk_dirs).map(|d| Rule::new("opendir", &d, 1, *rng.pick(&["EACCES", "EIO", "EMFILE"]))),
            HardKind::ReadDir => pick_position(rng, &walk_dirs).map(|d| Rule::new("readdir", &d, rng.below(4), "EIO")),
            HardKind::StdinEio => Some(Rule::new("read", "@0", format!("+{}", rng.below(inv.stdin.as_ref().map(|b| b.0.len()).unwrap_or(0) + 1)), "EIO")),
            HardKind::StdStream => Some(if rng.chance(0.3) {
                // a non-blocking pipe with a slow reader: a partial write, then EAGAIN for a while
                let sel = *rng.pick(&["@1", "@1", "@2"]);
                extra.push(Rule::new("short_write", sel, 0, *rng.pick(&[1usize, 3, 7, 16, 61, 512])));
                Rule::new("eagain_write", sel, rng.range(1, 4), rng.range(1, 6))
            } else {
                Rule::new("write", *rng.pick(&["@1", "@1", "@2"]), format!("+{}", rng.below(64)), *rng.pick(&["EPIPE", "ENOSPC", "EIO"]))
            }),
            HardKind::Crash => Some(if rng.chance(0.3) {
                // Ctrl-C / a supervisor's TERM / a closed terminal in the middle of the run
                Rule::new("signal", "**", rng.range(1, events_hint.max(8)), *rng.pick(&[2, 15, 1]))
            } else {
                Rule::new("crash", "**", rng.range(1, events_hint.max(8)), 0)
            }),
        };
        if let Some(r) = rule {
            inv.plan.push(r);
        }
        inv.plan.append(&mut extra);
    }
}
