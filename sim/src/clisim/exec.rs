//! Executes one case: materialise the world, then for every step run the real binary under the
//! interposer, read back the world, and compare with the reference model.

use std::collections::{BTreeMap, BTreeSet};

use super::model::{self, InputClass, Level};
use super::plan;
use super::run::{self, Env};
use super::types::*;
use super::world;
use crate::oracle::{Cfg, Fmt, Oracle};
use crate::rng::{fnv, Rng};

#[derive(Clone, Debug, Default)]
pub struct Stats {
    pub cases: u64,
    pub invocations: u64,
    pub edits: u64,
    pub oracle_unavailable: u64,
    pub oracle_refused_well_formed: u64,
    pub unmodelled: u64,
    pub shapes: BTreeMap<String, u64>,
    pub faults_fired: BTreeMap<String, u64>,
    pub probes: BTreeMap<String, u64>,
    pub exit_codes: BTreeMap<String, u64>,
    pub states: BTreeSet<u64>,
    pub trace_shapes: BTreeSet<u64>,
    pub nontrivial_cases: BTreeSet<u64>,
    pub sim_clock_reads: u64,
    pub events: u64,
    pub files_compared: u64,
    pub writes_expected: u64,
    pub harness_errors: Vec<String>,
}

impl Stats {
    pub fn probe(&mut self, name: &str) {
        *self.probes.entry(name.to_string()).or_default() += 1;
    }
    pub fn merge(&mut self, o: Stats) {
        self.cases += o.cases;
        self.invocations += o.invocations;
        self.edits += o.edits;
        self.oracle_unavailable += o.oracle_unavailable;
        self.oracle_refused_well_formed += o.oracle_refused_well_formed;
        self.unmodelled += o.unmodelled;
        for (k, v) in o.shapes {
            *self.shapes.entry(k).or_default() += v;
        }
        for (k, v) in o.faults_fired {
            *self.faults_fired.entry(k).or_default() += v;
        }
        for (k, v) in o.probes {
            *self.probes.entry(k).or_default() += v;
        }
        for (k, v) in o.exit_codes {
            *self.exit_codes.entry(k).or_default() += v;
        }
        self.states.extend(o.states);
        self.trace_shapes.extend(o.trace_shapes);
        self.nontrivial_cases.extend(o.nontrivial_cases);
        self.sim_clock_reads += o.sim_clock_reads;
        self.events += o.events;
        self.files_compared += o.files_compared;
        self.writes_expected += o.writes_expected;
        self.harness_errors.extend(o.harness_errors);
    }
}

pub struct RunResult {
    /// the case as executed (fault plans filled in)
    pub case: Case,
    pub violations: Vec<Violation>,
    /// normalised log digest per invocation
    pub digests: Vec<u64>,
    /// normalised logs per invocation (kept only when `keep_logs` is set)
    pub logs: Vec<String>,
    pub harness_error: Option<String>,
}

impl RunResult {
    pub fn log_digest(&self) -> u64 {
        let mut s = String::new();
        for d in &self.digests {
            s.push_str(&format!("{:016x}", d));
        }
        fnv(s.as_bytes())
    }
}

fn shape_name(inv: &Inv) -> &'static str {
    match &inv.shape {
        Shape::Files { mode: Mode::Stdout, .. } => "files-stdout",
        Shape::Files { mode: Mode::Inplace, .. } => "files-inplace",
        Shape::Files { mode: Mode::Check, .. } => "files-check",
        Shape::Files { mode: Mode::InplaceCheck, .. } => "files-inplace-check",
        Shape::Stdin { check: false } => "stdin-stdout",
        Shape::Stdin { check: true } => "stdin-check",
        Shape::FormatAll { check: false, .. } => "format-all",
        Shape::FormatAll { check: true, .. } => "format-all-check",
    }
}

fn class_code(c: &InputClass) -> char {
    match c {
        InputClass::Unreadable(_) => 'U',
        InputClass::Erroneous => 'E',
        InputClass::Formatted => 'F',
        InputClass::Unformatted => 'N',
    }
}

/// normalised shape of a syscall trace: symbols only, runs collapsed
fn trace_shape(out: &run::Outcome) -> u64 {
    let mut s = String::new();
    let mut last = String::new();
    for ev in &out.trace {
        let tok = format!("{}{}", ev.sym, if ev.ret < 0 { "!" } else { "" });
        if tok != last {
            s.push_str(&tok);
            s.push(' ');
            last = tok;
        }
    }
    fnv(s.as_bytes())
}

fn record_probes(stats: &mut Stats, tree: &Tree, inv: &Inv, pred: &model::Prediction, out: &run::Outcome, fired: &run::Fired, oracle: &mut Oracle, prev_same_write: bool) {
    let n = pred.inputs.len();
    if n >= 2 {
        for (i, inp) in pred.inputs.iter().enumerate() {
            if matches!(inp.class, InputClass::Unreadable(_)) {
                stats.probe(if i == 0 { "unreadable-input-first" } else if i + 1 == n { "unreadable-input-last" } else { "unreadable-input-middle" });
            }
        }
        if matches!(pred.inputs[n - 1].class, InputClass::Erroneous) {
            stats.probe("erroneous-input-last");
        }
        if matches!(pred.inputs[0].class, InputClass::Unformatted) && pred.inputs[1..].iter().all(|i| !matches!(i.class, InputClass::Unformatted)) {
            stats.probe("only-first-input-differs");
        }
    }
    if !fired.write_failed.is_empty() {
        stats.probe("write-fault-between-read-and-write-of-a-target");
    }
    if inv.debug != 0 {
        stats.probe("debug-option-given (-a/-p: stdout not judged, everything else is)");
    }
    if n >= 17 {
        stats.probe("17-or-more-inputs");
    }
    if n >= 64 {
        stats.probe("64-or-more-inputs");
        if pred.inputs.iter().filter(|i| !matches!(i.class, InputClass::Formatted)).count() == 1 {
            stats.probe("64-or-more-inputs-exactly-one-not-formatted");
        }
    }
    if !fired.read_failed.is_empty() {
        stats.probe("read-fault-on-an-input");
    }
    if let Shape::FormatAll { dir, .. } = &inv.shape {
        let typed = dir.clone().unwrap_or_default();
        let last = typed.trim_end_matches('/').rsplit('/').next().unwrap_or("").to_string();
        if last.starts_with('.') {
            stats.probe("format-all-DIR-has-dot-name");
        }
        if dir.is_none() {
            stats.probe("format-all-without-DIR");
        }
        // only hidden files differ
        if !pred.any_unformatted {
            let dkey = resolve(&inv.cwd, dir.as_deref().unwrap_or(".")).unwrap_or(".".into());
            let cfg = inv.style.cfg();
            let mut hidden_differs = false;
            for (k, node) in tree {
                if !is_below(k, &dkey) || !k.ends_with(".typ") {
                    continue;
                }
                if let Node::File(b) = node {
                    if model::eligible(tree, &dkey).contains(k) {
                        continue;
                    }
                    if let Some(t) = b.as_str() {
                        if let Fmt::Ok(f) = oracle.fmt(t, cfg) {
                            if f != t {
                                hidden_differs = true;
                            }
                        }
                    }
                }
            }
            if hidden_differs {
                stats.probe("only-ineligible-files-differ");
            }
        }
    }
    if let Shape::Files { paths, .. } = &inv.shape {
        let mut seen = BTreeSet::new();
        if paths.iter().any(|p| !seen.insert(resolve(&inv.cwd, p))) {
            stats.probe("duplicate-path-in-argv");
        }
        if paths.iter().any(|p| p != "/dev/stdin" && matches!(resolve_phys(tree, &inv.cwd, p), Ok(k) if Some(&k) != resolve(&inv.cwd, p).as_ref())) {
            stats.probe("dotdot-after-directory-link");
        }
        if paths.iter().any(|p| matches!(resolve_phys(tree, &inv.cwd, p), Err(PathErr::NotDir))) {
            stats.probe("path-through-a-regular-file");
        }
        if paths.len() >= 7 {
            stats.probe("seven-or-more-paths");
        }
    }
    if out.stdout.len() > 65536 {
        stats.probe("stdout-larger-than-64KiB");
    }
    if pred.inputs.iter().any(|i| i.len > 65536) {
        stats.probe("input-larger-than-64KiB");
    }
    if prev_same_write && pred.writes_expected == 0 {
        stats.probe("second-identical-write-run-is-a-no-op");
    }
    if prev_same_write && pred.writes_expected > 0 {
        stats.probe("second-identical-write-run-writes-again(non-idempotent-doc,observation)");
    }
    // did the configuration actually matter for this invocation's first readable input?
    let cfg = inv.style.cfg();
    let d = Cfg::default();
    if cfg != d {
        let text: Option<String> = match &inv.shape {
            Shape::Stdin { .. } => inv.stdin.as_ref().and_then(|b| b.as_str().map(|s| s.to_string())),
            _ => pred.inputs.iter().find(|i| matches!(i.class, InputClass::Formatted | InputClass::Unformatted)).and_then(|i| {
                follow(tree, &i.named).and_then(|k| match tree.get(&k) {
                    Some(Node::File(b)) => b.as_str().map(|s| s.to_string()),
                    _ => None,
                })
            }),
        };
        if let Some(t) = text {
            if t.len() < 20000 {
                let full = oracle.fmt(&t, cfg);
                if cfg.column != d.column && oracle.fmt(&t, Cfg { column: d.column, ..cfg }) != full {
                    stats.probe("config-matters:column");
                }
                if cfg.tab != d.tab && oracle.fmt(&t, Cfg { tab: d.tab, ..cfg }) != full {
                    stats.probe("config-matters:tab-width");
                }
                if cfg.reorder != d.reorder && oracle.fmt(&t, Cfg { reorder: d.reorder, ..cfg }) != full {
                    stats.probe("config-matters:reorder");
                }
            }
        }
    }
}

/// Seam liveness canary: the trace must contain the calls the model knows must have happened.
fn canary(inv: &Inv, pred: &model::Prediction, out: &run::Outcome, fired: &run::Fired) -> Option<String> {
    if fired.crashed || pred.unmodelled.is_some() || pred.oracle_unavailable {
        return None;
    }
    if out.exit == Some(2) {
        return None; // usage error: nothing is opened
    }
    if out.trace.is_empty() {
        return Some("empty trace: the interposer did not see a single call".into());
    }
    match &inv.shape {
        Shape::Files { mode, paths } if *mode != Mode::InplaceCheck => {
            // only liveness of the seam: some attempt to open something in the world must be
            // visible (an implementation may stop early, cache, or de-duplicate - that is for the
            // invariants to judge, not for the canary)
            // (and only when the outcome is the one the model predicts anyway - the caller asks
            // the invariants first)
            // (which calls is the tool's business: a list whose only entry is taken for standard
            // input shows reads of descriptor 0 and nothing else; the empty trace is caught above)
            let _ = (mode, paths);
        }
        Shape::FormatAll { .. } => {
            // liveness only (a tool may give up before it walks, e.g. when a lock is refused)
        }
        Shape::Stdin { .. } => {
            // liveness only (standard input can be read in ways that do not pass read(0): by
            // opening /dev/stdin, by mapping it - whether the result is right is for the invariants)
        }
        _ => {}
    }
    // (no demand that stdout bytes pass through write(1): in-kernel copies are refused by the
    // interposer with ENOSYS, but a caller may have other legal ways)
    None
}

pub struct PlanCtx<'a> {
    pub rng: &'a mut Rng,
    pub profile: &'a str,
}

/// Runs `case`. If `fill` is given, fault plans are drawn (from the `faults` stream) just before
/// each invocation from the model's view of the current tree; the returned case records them,
/// so replaying the returned case needs no PRNG at all.
pub fn run_case(env: &Env, case: &Case, oracle: &mut Oracle, mut fill: Option<PlanCtx>, stats: &mut Stats) -> RunResult {
    let root = env.root();
    let mut executed = case.clone();
    let mut result = RunResult { case: case.clone(), violations: vec![], digests: vec![], logs: vec![], harness_error: None };
    let _ = std::fs::remove_dir_all(env.home());
    let _ = std::fs::create_dir_all(env.home());
    if case.seed % 11 == 3 {
        // a user with settings files of the kind tools look for: nothing typstyle does may depend
        // on them (the options come from the command line and nowhere else)
        let h = env.home();
        let settings = "column = 33\nmax_width = 33\ntab_width = 7\ntab-width = 7\nreorder_import_items = true\nreorder-import-items = true\nexclude = [\"*.typ\"]\n[format]\ncolumn = 21\n";
        let _ = std::fs::create_dir_all(h.join(".config/typstyle"));
        let _ = std::fs::write(h.join(".config/typstyle/config.toml"), settings);
        let _ = std::fs::write(h.join(".config/typstyle/typstyle.toml"), settings);
        let _ = std::fs::write(h.join(".config/typstyle.toml"), settings);
        let _ = std::fs::write(h.join(".typstyle.toml"), settings);
        let _ = std::fs::write(h.join("typstyle.toml"), settings);
        let _ = std::fs::write(h.join(".typstylerc"), settings);
        let _ = std::fs::write(h.join(".gitignore"), "*.typ\n");
        let _ = std::fs::write(h.join(".config/git/ignore"), "*.typ\n");
        let _ = std::fs::write(h.join(".editorconfig"), "root = true\n[*]\nindent_size = 8\nmax_line_length = 30\n");
        stats.probe("HOME holds settings and ignore files");
    }
    if let Err(e) = world::materialise(&root, &case.tree).and_then(|_| world::link_up(&root, &case.hardlinks)) {
        result.harness_error = Some(format!("materialise: {e}"));
        return result;
    }
    if !case.hardlinks.is_empty() {
        stats.probe("tree with a hard link (second name of a file)");
    }
    stats.cases += 1;
    // one case in eight: a third of the files carry a modification time in the future
    let future = if case.seed % 8 == 5 { Some(case.seed) } else { None };
    if let Err(e) = world::pin_all_future(&root, future) {
        result.harness_error = Some(format!("pin: {e}"));
        return result;
    }
    // one case in six, and only when the harness runs as root (for whom permission bits decide
    // nothing): a quarter of the files lose their write bits or all bits - a read-only checkout,
    // a vendored tree. What the tool may and may not do is a matter of what the kernel allows,
    // not of what the mode says.
    if case.seed % 6 == 1 && unsafe { libc::geteuid() } == 0 {
        if let Err(e) = world::chmod_some(&root, case.seed) {
            result.harness_error = Some(format!("chmod: {e}"));
            return result;
        }
        stats.probe("files-without-write-permission-bits");
    }
    let fine = {
        use std::sync::OnceLock;
        static FINE: OnceLock<bool> = OnceLock::new();
        *FINE.get_or_init(|| world::fine_grained_mtime(&env.base))
    };
    let mut seen_before = match world::snapshot(&root) {
        Ok(s) => s,
        Err(e) => {
            result.harness_error = Some(format!("snapshot: {e}"));
            return result;
        }
    };
    let mut tree = case.tree.clone();
    let mut droppings: BTreeSet<String> = BTreeSet::new();
    let mut events_hint = 40usize;
    let mut prev_write_inv: Option<(Shape, Cfg, String)> = None;
    let mut nontrivial = false;
    for (idx, step) in case.steps.iter().enumerate() {
        match step {
            Step::Edit(e) => {
                if let Err(err) = world::apply_edit_disk(&root, e) {
                    result.harness_error = Some(format!("edit: {err}"));
                    break;
                }
                world::apply_edit_model(&mut tree, e);
                match world::snapshot(&root) {
                    Ok(mut s) => {
                        s.retain(|k, _| !droppings.iter().any(|d| k == d || is_below(k, d)));
                        seen_before = s
                    }
                    Err(err) => {
                        result.harness_error = Some(format!("snapshot: {err}"));
                        break;
                    }
                }
                stats.edits += 1;
                prev_write_inv = None;
            }
            Step::Inv(inv0) => {
                let mut inv = inv0.clone();
                // cwd must exist (an edit may have removed it)
                if inv.cwd != "." && !matches!(tree.get(&inv.cwd), Some(Node::Dir)) {
                    inv.cwd = ".".into();
                }
                // the debug dumps only over small, shallow worlds (edits may have changed that)
                if inv.debug != 0 && !super::workload::debug_output_is_small(&tree, inv.stdin.as_ref().map(|b| b.0.as_slice())) {
                    inv.debug = 0;
                }
                if let Some(ctx) = fill.as_mut() {
                    // (no hard faults in a world with hard links: a write that fails half-way on one
                    // name changes what the tool reads under the other, which the model does not follow)
                    let profile = if !case.hardlinks.is_empty() && ctx.profile == "hard" { "benign" } else { ctx.profile };
                    plan::add_plan(ctx.rng, profile, &tree, &mut inv, oracle, events_hint);
                }
                executed.steps[idx] = Step::Inv(inv.clone());
                world::settle(&seen_before, fine);
                let out = match run::run_inv(env, &inv) {
                    Ok(o) => o,
                    Err(e) => {
                        result.harness_error = Some(format!("spawn: {e}"));
                        break;
                    }
                };
                let fired = run::fired(&out.trace);
                let mut out = out;
                if let (Some(sig), false) = (out.signal, fired.signalled) {
                    if matches!(sig, 4 | 6 | 7 | 8 | 11) {
                        // The binary crashed by itself (abort, stack overflow, segfault). If a very
                        // deeply nested input is involved and the binary cannot format it even alone
                        // on stdin, the document is simply too much for it (C05's business): no
                        // verdict. Otherwise the crash is judged like any other outcome - a batch that
                        // dies has not processed its remaining inputs.
                        let mut too_much = false;
                        let mut texts: Vec<Vec<u8>> = tree.values().filter_map(|n| if let Node::File(b) = n { Some(b.0.clone()) } else { None }).collect();
                        if let Some(b) = &inv.stdin {
                            texts.push(b.0.clone());
                        }
                        for t in texts.iter().filter(|t| t.windows(16).any(|w| w == b"((((((((((((((((")) {
                            let alone = Inv { shape: Shape::Stdin { check: false }, stdin: Some(crate::util::Bytes(t.clone())), plan: vec![], env: vec![], debug: 0, ..inv.clone() };
                            match run::run_inv(env, &alone) {
                                Ok(o) if o.signal.is_none() => {}
                                _ => too_much = true,
                            }
                        }
                        if too_much {
                            stats.oracle_unavailable += 1;
                            break;
                        }
                        out.exit = Some(128 + sig);
                        out.signal = None;
                    } else {
                        // SIGKILL (watchdog), SIGXCPU (runaway): not a verdict of C14-C16
                        result.harness_error = Some(format!("child killed by signal {:?} (argv {:?})", out.signal, crate::util::excerpt(inv.argv("{ROOT}").join(" ").as_bytes(), 300)));
                        break;
                    }
                }
                // Recoverable trouble (a refused lock, a refused thread): the tool may do without or
                // give up with an error - but exit status 0 means "done as if nothing had happened", so
                // with exit 0 the whole fault-free postcondition is demanded, otherwise only safety.
                let mut fired = fired;
                if fired.lock_refused || fired.thread_refused {
                    if out.exit == Some(0) {
                        fired.lock_refused = false;
                        fired.thread_refused = false;
                    } else {
                        fired.lock_refused = true;
                        fired.thread_refused = false;
                    }
                }
                // A stalled non-blocking stdin: "unreadable" and "read completely" are both legal.
                // Judge with the reading that fits; only if neither does, report the second.
                if fired.stdin_eagain {
                    let mut f1 = fired.clone();
                    f1.stdin_failed = true;
                    let p1 = model::predict(&tree, &inv, &f1, oracle);
                    let after1 = world::snapshot(&root).ok().map(|mut s| {
                        s.retain(|k, _| !droppings.iter().any(|d| k == d || is_below(k, d)));
                        s
                    });
                    if let Some(a1) = &after1 {
                        if model::check(idx, &tree, &seen_before, &inv, &p1, a1, &out).is_empty() {
                            fired.stdin_failed = true;
                        }
                    }
                }
                // A transient read error on a file: "unreadable" (the tool gave up) and "read
                // completely" (it tried again) are both legal; a mixture is not. Judge with the
                // reading that fits; if neither does, the second (fault-free) one is reported.
                if !fired.transient_read.is_empty() {
                    let mut f1 = fired.clone();
                    f1.read_failed.extend(fired.transient_read.iter().cloned());
                    let p1 = model::predict(&tree, &inv, &f1, oracle);
                    let after1 = world::snapshot(&root).ok().map(|mut s| {
                        s.retain(|k, _| !droppings.iter().any(|d| k == d || is_below(k, d)));
                        s
                    });
                    if let Some(a1) = &after1 {
                        if model::check(idx, &tree, &seen_before, &inv, &p1, a1, &out).is_empty() {
                            fired.read_failed = f1.read_failed;
                        }
                    }
                }
                let pred = model::predict(&tree, &inv, &fired, oracle);
                let mut after = match world::snapshot(&root) {
                    Ok(s) => s,
                    Err(e) => {
                        result.harness_error = Some(format!("snapshot: {e}"));
                        break;
                    }
                };
                // hidden entries the tool itself created in an earlier step (a staging file left by
                // a crash, a cache): its own business from then on - it may reuse, replace or
                // remove them - and outside the walk anyway
                after.retain(|k, _| !droppings.iter().any(|d| k == d || is_below(k, d)));
                result.digests.push(run::log_digest(&root, &out));
                if std::env::var_os("VSIM_KEEP_LOGS").is_some() {
                    result.logs.push(run::log_text(&root, &out));
                }
                // ---- statistics
                stats.invocations += 1;
                *stats.shapes.entry(shape_name(&inv).to_string()).or_default() += 1;
                for (k, n) in &fired.kinds {
                    *stats.faults_fired.entry(k.clone()).or_default() += n;
                }
                if inv.readdir == "perm" || inv.readdir == "reverse" {
                    let n = out.trace.iter().filter(|e| e.sym == "opendir" && e.ret >= 0).count() as u64;
                    if n > 0 {
                        *stats.faults_fired.entry(format!("readdir-order:{}", inv.readdir)).or_default() += n;
                    }
                }
                *stats.exit_codes.entry(format!("{}:{:?}", shape_name(&inv), out.exit.unwrap_or(-1))).or_default() += 1;
                stats.events += out.trace.len() as u64;
                stats.sim_clock_reads += out.trace.iter().filter(|e| e.sym == "clock").count() as u64;
                stats.files_compared += pred.files.len() as u64;
                stats.writes_expected += pred.writes_expected as u64;
                events_hint = out.trace.len().max(8);
                if pred.oracle_unavailable {
                    stats.oracle_unavailable += 1;
                    // the CLI has most likely panicked too; the tree is not predictable any more
                    break;
                }
                if pred.unmodelled.is_some() {
                    stats.unmodelled += 1;
                }
                // (the seam canary is consulted after the verdict: an outcome that violates an
                // invariant is reported as that, whatever the trace looks like)
                let canary_msg = canary(&inv, &pred, &out, &fired);
                let same_as_prev = matches!(&prev_write_inv, Some((s, c, d)) if *s == inv.shape && *c == inv.style.cfg() && *d == inv.cwd);
                record_probes(stats, &tree, &inv, &pred, &out, &fired, oracle, same_as_prev);
                let mut classes: Vec<char> = pred.inputs.iter().map(|i| class_code(&i.class)).collect();
                classes.sort();
                classes.dedup();
                let fk: Vec<&str> = fired.kinds.iter().map(|(k, _)| k.as_str()).collect();
                let state = format!("{}|{:?}|{:?}|{:?}|{:?}|{}", shape_name(&inv), classes, fk, out.exit, pred.level, pred.writes_expected.min(3));
                stats.states.insert(fnv(state.as_bytes()));
                stats.trace_shapes.insert(trace_shape(&out));
                if !pred.inputs.is_empty() {
                    nontrivial = true;
                }
                // ---- verdict
                let mut v = model::check(idx, &tree, &seen_before, &inv, &pred, &after, &out);
                if let Some((target, kind)) = &fired.livelock {
                    // bounded progress: a persistent failure on one input must not keep the tool
                    // busy for ever (check mode owes an exit status, a batch owes the other inputs)
                    let (prop, id) = if inv.is_check() { ("C14", "I14.3-livelock") } else if matches!(&inv.shape, Shape::Files { mode: Mode::Inplace, .. } | Shape::FormatAll { check: false, .. }) { ("C15", "I15.3-livelock") } else { ("", "") };
                    if !prop.is_empty() {
                        v.insert(
                            0,
                            Violation {
                                property: prop.into(),
                                invariant: id.into(),
                                step: idx,
                                message: format!("the tool retried the persistently failing operation {} on {:?} 3000 times in a row without giving up: it never delivers an exit status / never gets to its other inputs", kind, target),
                            },
                        );
                    } else {
                        v.clear();
                    }
                }
                let write_mode = matches!(&inv.shape, Shape::Files { mode: Mode::Inplace, .. } | Shape::FormatAll { check: false, .. });
                prev_write_inv = if write_mode && fired.kinds.iter().all(|(k, _)| Rule::new(k, "", 0, 0).is_benign() || k.starts_with("readdir-order")) {
                    Some((inv.shape.clone(), inv.style.cfg(), inv.cwd.clone()))
                } else {
                    None
                };
                if !v.is_empty() {
                    result.violations = v;
                    break;
                }
                if let Some(msg) = canary_msg {
                    result.harness_error = Some(format!("seam canary: {msg} (argv {:?})", inv.argv("{ROOT}")));
                    break;
                }
                // advance the model to what is on disk (equal to the prediction where exact)
                let mut after = after;
                for k in after.keys() {
                    if !tree.contains_key(k) && k.split('/').any(|c| c.starts_with('.')) && !droppings.iter().any(|d| is_below(k, d)) {
                        // (tolerated by the verdict above, or it would not have got here)
                        let mut acc = String::new();
                        for comp in k.split('/') {
                            if !acc.is_empty() {
                                acc.push('/');
                            }
                            acc.push_str(comp);
                            if !tree.contains_key(&acc) {
                                break;
                            }
                        }
                        if file_name(&acc).starts_with('.') {
                            droppings.insert(acc);
                        }
                    }
                }
                after.retain(|k, _| !droppings.iter().any(|d| k == d || is_below(k, d)));
                tree = world::snapshot_tree(&after);
                seen_before = after;
            }
        }
    }
    if nontrivial {
        stats.nontrivial_cases.insert(fnv(serde_json::to_string(&executed).unwrap_or_default().as_bytes()));
    }
    if let Some(e) = &result.harness_error {
        stats.harness_errors.push(format!("seed {}: {}", case.seed, e));
    }
    result.case = executed;
    result
}
