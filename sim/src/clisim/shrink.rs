//! Minimisation of a failing case (delta debugging while the same invariant keeps failing).

use super::exec::{run_case, Stats};
use super::run::Env;
use super::types::*;
use crate::oracle::Oracle;
use crate::util::Bytes;

pub struct Shrinker<'a> {
    pub env: &'a Env,
    pub oracle: &'a mut Oracle,
    pub property: String,
    pub invariant: String,
    pub runs: usize,
    pub budget: usize,
    /// wall-clock limit for the whole minimisation (a case with tens of thousands of files costs
    /// seconds per candidate)
    pub deadline: std::time::Instant,
}

impl<'a> Shrinker<'a> {
    fn expired(&self) -> bool {
        self.runs >= self.budget || std::time::Instant::now() > self.deadline
    }

    fn fails(&mut self, case: &Case) -> Option<Violation> {
        if self.runs >= self.budget || std::time::Instant::now() > self.deadline {
            return None;
        }
        self.runs += 1;
        let mut st = Stats::default();
        let r = run_case(self.env, case, self.oracle, None, &mut st);
        if r.harness_error.is_some() {
            return None;
        }
        r.violations
            .into_iter()
            .find(|v| v.invariant == self.invariant && v.property.split(',').any(|p| p == self.property))
    }

    pub fn shrink(&mut self, case: &Case) -> Case {
        let mut cur = case.clone();
        let Some(v0) = self.fails(&cur) else { return cur };
        // 1. drop everything after the failing step
        cur.steps.truncate(v0.step + 1);
        let mut progress = true;
        while progress && !self.expired() {
            progress = false;
            // 2. drop earlier steps
            let mut i = 0;
            while i + 1 < cur.steps.len() && !self.expired() {
                let mut c = cur.clone();
                c.steps.remove(i);
                if self.fails(&c).is_some() {
                    cur = c;
                    progress = true;
                } else {
                    i += 1;
                }
            }
            // 3. drop fault rules, simplify options
            for si in 0..cur.steps.len() {
                if !matches!(&cur.steps[si], Step::Inv(_)) {
                    continue;
                }
                let mut ri = 0;
                while ri < match &cur.steps[si] { Step::Inv(i) => i.plan.len(), _ => 0 } {
                    let mut c = cur.clone();
                    if let Step::Inv(i) = &mut c.steps[si] {
                        i.plan.remove(ri);
                    }
                    if self.fails(&c).is_some() {
                        cur = c;
                        progress = true;
                    } else {
                        ri += 1;
                    }
                }
                let simplifications: Vec<Box<dyn Fn(&mut Inv)>> = vec![
                    Box::new(|i: &mut Inv| i.verbosity = 0),
                    Box::new(|i: &mut Inv| i.debug = 0),
                    Box::new(|i: &mut Inv| i.dashdash = false),
                    Box::new(|i: &mut Inv| i.readdir = "sorted".into()),
                    Box::new(|i: &mut Inv| i.style.column = None),
                    Box::new(|i: &mut Inv| i.style.tab = None),
                    Box::new(|i: &mut Inv| i.style.reorder = false),
                    Box::new(|i: &mut Inv| {
                        i.style.spelling = 0;
                        i.style.after = false;
                        i.check_after = false
                    }),
                    Box::new(|i: &mut Inv| {
                        if !matches!(i.shape, Shape::Stdin { .. }) {
                            i.stdin = None
                        }
                    }),
                    Box::new(|i: &mut Inv| i.shim_seed = 1),
                    Box::new(|i: &mut Inv| i.env.clear()),
                ];
                for s in simplifications {
                    let mut c = cur.clone();
                    if let Step::Inv(i) = &mut c.steps[si] {
                        s(i);
                    }
                    if c != cur && self.fails(&c).is_some() {
                        cur = c;
                        progress = true;
                    }
                }
                // 4a. drop paths from a file list in halves, quarters, ... (long lists)
                let mut chunk = match &cur.steps[si] {
                    Step::Inv(Inv { shape: Shape::Files { paths, .. }, .. }) => paths.len() / 2,
                    _ => 0,
                };
                while chunk >= 2 && !self.expired() {
                    let mut i = 0;
                    loop {
                        if self.expired() {
                            break;
                        }
                        let n = match &cur.steps[si] {
                            Step::Inv(Inv { shape: Shape::Files { paths, .. }, .. }) => paths.len(),
                            _ => 0,
                        };
                        if i >= n || n <= 1 {
                            break;
                        }
                        let mut c = cur.clone();
                        if let Step::Inv(Inv { shape: Shape::Files { paths, .. }, .. }) = &mut c.steps[si] {
                            let end = (i + chunk).min(paths.len());
                            if end - i >= paths.len() {
                                break;
                            }
                            paths.drain(i..end);
                        }
                        if self.fails(&c).is_some() {
                            cur = c;
                            progress = true;
                        } else {
                            i += chunk;
                        }
                    }
                    chunk /= 2;
                }
                // 4b. drop paths from a file list one by one
                loop {
                    let n = match &cur.steps[si] {
                        Step::Inv(Inv { shape: Shape::Files { paths, .. }, .. }) => paths.len(),
                        _ => 0,
                    };
                    let mut dropped = false;
                    for pi in 0..n {
                        if n <= 1 || self.expired() {
                            break;
                        }
                        let mut c = cur.clone();
                        if let Step::Inv(Inv { shape: Shape::Files { paths, .. }, .. }) = &mut c.steps[si] {
                            paths.remove(pi);
                        }
                        if self.fails(&c).is_some() {
                            cur = c;
                            progress = true;
                            dropped = true;
                            break;
                        }
                    }
                    if !dropped {
                        break;
                    }
                }
            }
            // 5a. drop, in one go, every file that no remaining file list names
            {
                let mut named: std::collections::BTreeSet<String> = Default::default();
                let mut only_lists = true;
                for st in &cur.steps {
                    match st {
                        Step::Inv(Inv { shape: Shape::Files { paths, .. }, cwd, .. }) => {
                            for p in paths {
                                if let Some(k) = resolve(cwd, p) {
                                    named.insert(k);
                                }
                            }
                        }
                        Step::Inv(Inv { shape: Shape::Stdin { .. }, .. }) => {}
                        _ => only_lists = false,
                    }
                }
                if only_lists && cur.tree.len() > 40 {
                    let mut c = cur.clone();
                    c.tree.retain(|k, n| matches!(n, Node::Dir) || named.contains(k));
                    if c.tree.len() < cur.tree.len() && self.fails(&c).is_some() {
                        cur = c;
                        progress = true;
                    }
                }
            }
            // 5b. drop tree entries (with everything below them)
            let keys: Vec<String> = if cur.tree.len() > 400 { Vec::new() } else { cur.tree.keys().rev().cloned().collect() };
            for k in keys {
                if self.expired() {
                    break;
                }
                if !cur.tree.contains_key(&k) {
                    continue;
                }
                let mut c = cur.clone();
                c.tree.retain(|kk, _| kk != &k && !is_below(kk, &k));
                if self.fails(&c).is_some() {
                    cur = c;
                    progress = true;
                }
            }
            // 6. shorten file contents and stdin line-wise
            let keys: Vec<String> = cur.tree.keys().cloned().collect();
            for k in keys {
                let Some(Node::File(b)) = cur.tree.get(&k).cloned() else { continue };
                if let Some(nb) = self.shrink_bytes(&cur, &b, |c, nb| {
                    c.tree.insert(k.clone(), Node::File(nb));
                }) {
                    cur.tree.insert(k.clone(), Node::File(nb));
                    progress = true;
                }
            }
            for si in 0..cur.steps.len() {
                let Step::Inv(Inv { stdin: Some(b), .. }) = cur.steps[si].clone() else { continue };
                if let Some(nb) = self.shrink_bytes(&cur, &b, |c, nb| {
                    if let Step::Inv(i) = &mut c.steps[si] {
                        i.stdin = Some(nb);
                    }
                }) {
                    if let Step::Inv(i) = &mut cur.steps[si] {
                        i.stdin = Some(nb);
                    }
                    progress = true;
                }
            }
        }
        cur
    }

    /// line-wise ddmin of one byte string; `put` installs a candidate into a copy of the case
    fn shrink_bytes(&mut self, cur: &Case, b: &Bytes, put: impl Fn(&mut Case, Bytes)) -> Option<Bytes> {
        let lines: Vec<&[u8]> = b.0.split_inclusive(|c| *c == b'\n').collect();
        if lines.len() <= 1 && b.0.len() <= 16 {
            return None;
        }
        let mut best: Vec<Vec<u8>> = lines.iter().map(|l| l.to_vec()).collect();
        let mut improved = false;
        let mut chunk = (best.len() / 2).max(1);
        while chunk >= 1 && !self.expired() {
            let mut i = 0;
            let mut any = false;
            while i < best.len() && best.len() > 1 && !self.expired() {
                let mut cand = best.clone();
                let end = (i + chunk).min(cand.len());
                cand.drain(i..end);
                let nb = Bytes(cand.concat());
                let mut c = cur.clone();
                put(&mut c, nb);
                if self.fails(&c).is_some() {
                    best = cand;
                    improved = true;
                    any = true;
                } else {
                    i += chunk;
                }
            }
            if chunk == 1 && !any {
                break;
            }
            chunk = if chunk == 1 { 1 } else { chunk / 2 };
            if chunk == 1 && any {
                continue;
            }
        }
        if improved {
            Some(Bytes(best.concat()))
        } else {
            None
        }
    }
}
