//! One integer decides everything: every choice in a run is drawn from PRNG streams derived
//! from the run seed. No clock, pid, address or hash order is ever an input.

#[derive(Clone, Debug)]
pub struct Rng {
    s: [u64; 4],
}

pub fn splitmix(state: &mut u64) -> u64 {
    *state = state.wrapping_add(0x9E37_79B9_7F4A_7C15);
    let mut z = *state;
    z = (z ^ (z >> 30)).wrapping_mul(0xBF58_476D_1CE4_E5B9);
    z = (z ^ (z >> 27)).wrapping_mul(0x94D0_49BB_1331_11EB);
    z ^ (z >> 31)
}

pub fn fnv(bytes: &[u8]) -> u64 {
    let mut h: u64 = 0xcbf2_9ce4_8422_2325;
    for b in bytes {
        h ^= *b as u64;
        h = h.wrapping_mul(0x0000_0100_0000_01b3);
    }
    h
}

/// seed of run `i` of a batch with base seed `base`
pub fn mix(base: u64, i: u64) -> u64 {
    let mut s = base ^ i.wrapping_mul(0xD605_BBB5_8C8A_BC03);
    let a = splitmix(&mut s);
    let b = splitmix(&mut s);
    a ^ b.rotate_left(17)
}

impl Rng {
    pub fn new(seed: u64) -> Rng {
        let mut st = seed;
        let s = [
            splitmix(&mut st),
            splitmix(&mut st),
            splitmix(&mut st),
            splitmix(&mut st),
        ];
        Rng { s }
    }

    /// independent named sub-stream of a run seed
    pub fn stream(seed: u64, name: &str) -> Rng {
        Rng::new(seed ^ fnv(name.as_bytes()).rotate_left(23))
    }

    pub fn next_u64(&mut self) -> u64 {
        let r = self.s[1].wrapping_mul(5).rotate_left(7).wrapping_mul(9);
        let t = self.s[1] << 17;
        self.s[2] ^= self.s[0];
        self.s[3] ^= self.s[1];
        self.s[1] ^= self.s[2];
        self.s[0] ^= self.s[3];
        self.s[2] ^= t;
        self.s[3] = self.s[3].rotate_left(45);
        r
    }

    /// uniform in [0, n)
    pub fn below(&mut self, n: usize) -> usize {
        if n <= 1 {
            return 0;
        }
        (self.next_u64() % n as u64) as usize
    }

    /// uniform in [lo, hi] inclusive
    pub fn range(&mut self, lo: usize, hi: usize) -> usize {
        lo + self.below(hi - lo + 1)
    }

    pub fn chance(&mut self, p: f64) -> bool {
        ((self.next_u64() >> 11) as f64 / (1u64 << 53) as f64) < p
    }

    pub fn pick<'a, T>(&mut self, xs: &'a [T]) -> &'a T {
        &xs[self.below(xs.len())]
    }

    pub fn shuffle<T>(&mut self, xs: &mut [T]) {
        for i in (1..xs.len()).rev() {
            let j = self.below(i + 1);
            xs.swap(i, j);
        }
    }

    /// index drawn proportionally to weights
    pub fn weighted(&mut self, w: &[u32]) -> usize {
        let total: u64 = w.iter().map(|x| *x as u64).sum();
        if total == 0 {
            return 0;
        }
        let mut x = self.next_u64() % total;
        for (i, wi) in w.iter().enumerate() {
            if x < *wi as u64 {
                return i;
            }
            x -= *wi as u64;
        }
        w.len() - 1
    }
}
