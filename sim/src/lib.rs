pub mod gen;
pub mod oracle;
pub mod rng;
pub mod util;

pub mod clisim;
pub mod coresim;
