//! Seeded generator of small Typst documents (DESIGN.md appendix C), shared by both engines.
//!
//! Documents are classified by the *actual* library result, never by intention. Every
//! identifier is unique per document (`zq<tag>x<n>`) so that bytes on stdout are attributable.
//!
//! Two streams: `shape` decides the syntax tree; `deco` decides only things that keep the tree
//! shape (hence the `Span` numbers) identical while changing attributes: the text of
//! white-space nodes that exist either way (" " vs "\n") and the text of comments
//! ("@typstyle off" or not). Two documents generated from the same shape seed and different
//! deco seeds are "shape twins".

use crate::rng::Rng;

pub struct DocGen {
    shape: Rng,
    deco: Rng,
    tag: String,
    counter: u32,
    /// probability of generating loose (unformatted) white space
    loose: f64,
}

const WORDS: &[&str] = &[
    "\u{fc}ber", "na\u{ef}ve", "\u{6f22}\u{5b57}", "caf\u{e9}", "\u{1f600}", "\u{3b1}\u{3b2}",
    "lorem", "ipsum", "dolor", "sit", "amet", "consectetur", "adipiscing", "elit", "sed", "do",
    "eiusmod", "tempor", "incididunt", "ut", "labore", "et", "dolore", "magna", "aliqua", "enim",
    "minim", "veniam", "quis", "nostrud", "the", "a", "of", "formatter", "typst", "width",
];

const FUNCS: &[&str] = &[
    "text", "box", "block", "rect", "grid", "figure", "align", "pad", "stack", "link", "emph",
    "strong", "image", "par", "h", "v", "move", "rotate", "calc.max", "range", "str", "repr",
];

const FIELDS: &[&str] = &[
    "body", "len", "first", "last", "at", "map", "filter", "join", "pos", "named", "with",
    "fields", "func", "where", "sum", "rev", "sorted", "flatten", "zip", "fold",
];

const UNITS: &[&str] = &["pt", "em", "%", "cm", "mm", "fr", "deg", ""];

fn base36(mut v: u64) -> String {
    let mut s = String::new();
    loop {
        let d = (v % 36) as u8;
        s.push(if d < 10 { (b'0' + d) as char } else { (b'a' + d - 10) as char });
        v /= 36;
        if v == 0 {
            break;
        }
    }
    s
}

impl DocGen {
    pub fn new(shape_seed: u64, deco_seed: u64) -> DocGen {
        DocGen {
            shape: Rng::stream(shape_seed, "doc-shape"),
            deco: Rng::stream(deco_seed, "doc-deco"),
            tag: base36(shape_seed % (36u64.pow(5))),
            counter: 0,
            loose: 0.5,
        }
    }

    pub fn with_loose(mut self, p: f64) -> DocGen {
        self.loose = p;
        self
    }

    pub fn marker_prefix(&self) -> String {
        format!("zq{}x", self.tag)
    }

    fn ident(&mut self) -> String {
        self.counter += 1;
        format!("zq{}x{}", self.tag, self.counter)
    }

    fn word(&mut self) -> &'static str {
        *self.shape.pick(WORDS)
    }

    fn words(&mut self, lo: usize, hi: usize) -> String {
        let n = self.shape.range(lo, hi);
        let mut v = Vec::new();
        for _ in 0..n {
            v.push(self.word().to_string());
        }
        v.join(" ")
    }

    /// optional white space: may or may not produce a space node (shape stream)
    fn osp(&mut self) -> &'static str {
        if self.shape.chance(self.loose) {
            *self.shape.pick(&["", " ", "  "])
        } else {
            ""
        }
    }

    /// a white-space node that exists in every twin; its text comes from the deco stream
    fn ws(&mut self, indent: usize) -> String {
        if self.deco.chance(self.loose) {
            match self.deco.below(5) {
                0 => " ".into(),
                1 => "  ".into(),
                2 => "\n".into(),
                3 => format!("\n{}", " ".repeat(indent)),
                _ => format!("\n{}", " ".repeat(self.deco.below(9))),
            }
        } else {
            " ".into()
        }
    }

    fn comment_text(&mut self) -> String {
        // same node, different attribute: decided by the deco stream
        if self.deco.chance(0.25) {
            "@typstyle off".into()
        } else {
            format!("note {}", self.deco.below(1000))
        }
    }

    fn atom(&mut self) -> String {
        match self.shape.below(12) {
            // literal *values* come from the deco stream: twins have the same tree, other values
            0 | 1 => format!("{}", self.deco.below(1000)),
            2 => format!("{}.{}", self.deco.below(100), self.deco.below(10)),
            3 | 4 => format!("{}{}", self.deco.below(200), self.shape.pick(UNITS)),
            5 | 6 => {
                let w = self.words(1, 4);
                let id = self.ident();
                format!("\"{} {}\"", w, id)
            }
            7 => self.shape.pick(&["true", "false", "none", "auto"]).to_string(),
            8 => self.shape.pick(&["red", "blue", "left", "center", "top", "ltr"]).to_string(),
            _ => self.ident(),
        }
    }

    fn list_body(&mut self, items: Vec<String>, depth: usize) -> String {
        // "(" items ")" with deco-controlled separators
        let mut s = String::from("(");
        let n = items.len();
        let indent = 2 * (depth + 1);
        let multiline_open = n > 0 && self.shape.chance(self.loose * 0.5);
        if multiline_open {
            s.push('\n');
            s.push_str(&" ".repeat(indent));
        }
        for (i, it) in items.into_iter().enumerate() {
            s.push_str(&it);
            if i + 1 < n {
                s.push(',');
                let w = self.ws(indent);
                s.push_str(&w);
            }
        }
        if n > 0 && self.shape.chance(0.3) {
            s.push(',');
        }
        if multiline_open {
            s.push('\n');
        }
        s.push(')');
        s
    }

    fn args(&mut self, depth: usize, max: usize) -> String {
        let n = self.shape.range(0, max);
        let mut items = Vec::new();
        let mut named_started = false;
        for _ in 0..n {
            if self.shape.chance(0.15) && depth > 0 {
                let text = self.comment_text();
                // block comment inside an argument list
                let e = self.expr(depth.saturating_sub(1));
                items.push(format!("/* {} */ {}", text, e));
                continue;
            }
            if named_started || self.shape.chance(0.3) {
                named_started = self.shape.chance(0.7);
                let k = self.ident();
                let e = self.expr(depth.saturating_sub(1));
                let sp = self.osp();
                items.push(format!("{}:{}{}", k, if sp.is_empty() { " " } else { sp }, e));
            } else {
                let e = self.expr(depth.saturating_sub(1));
                items.push(e);
            }
        }
        self.list_body(items, depth)
    }

    fn content_block(&mut self, depth: usize) -> String {
        let mut s = String::from("[");
        let n = self.shape.range(0, 3);
        for i in 0..n {
            if i > 0 {
                s.push(' ');
            }
            match self.shape.below(4) {
                0 if depth > 0 => {
                    let id = self.ident();
                    s.push_str(&format!("#{}", id));
                }
                1 => {
                    let w = self.words(1, 3);
                    s.push_str(&format!("*{}*", w));
                }
                _ => {
                    let w = self.words(1, 6);
                    s.push_str(&w);
                }
            }
        }
        s.push(']');
        s
    }

    fn code_block(&mut self, depth: usize) -> String {
        let n = self.shape.range(1, 3);
        let inline = self.shape.chance(0.3);
        let mut stmts = Vec::new();
        for _ in 0..n {
            let st = match self.shape.below(4) {
                0 => {
                    let id = self.ident();
                    let e = self.expr(depth.saturating_sub(1));
                    let a = self.osp();
                    let b = self.osp();
                    format!("let {}{}={}{}", id, if a.is_empty() { " " } else { a }, if b.is_empty() { " " } else { b }, e)
                }
                1 => {
                    let text = self.comment_text();
                    if inline {
                        format!("/* {} */", text)
                    } else {
                        format!("// {}", text)
                    }
                }
                _ => self.expr(depth.saturating_sub(1)),
            };
            stmts.push(st);
        }
        if inline {
            format!("{{ {} }}", stmts.join("; "))
        } else {
            let ind = " ".repeat(self.shape.below(6));
            let mut s = String::from("{\n");
            for st in stmts {
                s.push_str(&ind);
                s.push_str(&st);
                s.push('\n');
            }
            s.push('}');
            s
        }
    }

    pub fn expr(&mut self, depth: usize) -> String {
        if depth == 0 {
            return self.atom();
        }
        match self.shape.weighted(&[4, 4, 3, 6, 3, 2, 2, 2, 3, 1, 1, 1]) {
            0 => self.atom(),
            1 => {
                // array
                let n = self.shape.range(0, 7);
                let mut items = Vec::new();
                for _ in 0..n {
                    items.push(self.expr(depth - 1));
                }
                if n == 1 {
                    format!("({},)", items[0])
                } else {
                    self.list_body(items, depth)
                }
            }
            2 => {
                // dict
                let n = self.shape.range(0, 5);
                if n == 0 {
                    return "(:)".into();
                }
                let mut items = Vec::new();
                for _ in 0..n {
                    let k = self.ident();
                    let v = self.expr(depth - 1);
                    items.push(format!("{}: {}", k, v));
                }
                self.list_body(items, depth)
            }
            3 => {
                // call
                let f = self.shape.pick(FUNCS).to_string();
                let a = self.args(depth, 8);
                let trailing = if self.shape.chance(0.25) { self.content_block(depth - 1) } else { String::new() };
                format!("{}{}{}", f, a, trailing)
            }
            4 => {
                // binary chain
                let n = self.shape.range(2, 5);
                let mut s = self.expr(depth - 1);
                for _ in 1..n {
                    let op = *self.shape.pick(&["+", "-", "*", "/", "==", "and", "or", "<=", "!="]);
                    let rhs = self.expr(depth - 1);
                    let l = self.osp();
                    let r = self.osp();
                    let wordop = op.chars().all(|c| c.is_alphabetic());
                    let l = if l.is_empty() && (wordop || op == "-" || op == "/") { " " } else { l };
                    let r = if r.is_empty() && (wordop || op == "-" || op == "/") { " " } else { r };
                    s = format!("{}{}{}{}{}", s, l, op, r, rhs);
                }
                s
            }
            5 => {
                // closure
                let n = self.shape.range(1, 3);
                let mut ps = Vec::new();
                for _ in 0..n {
                    ps.push(self.ident());
                }
                let body = self.expr(depth - 1);
                if n == 1 && self.shape.chance(0.5) {
                    format!("{} => {}", ps[0], body)
                } else {
                    format!("({}) => {}", ps.join(", "), body)
                }
            }
            6 => self.content_block(depth - 1),
            7 => self.code_block(depth),
            8 => {
                // method chain
                let mut s = self.ident();
                let n = self.shape.range(1, 5);
                for _ in 0..n {
                    let f = self.shape.pick(FIELDS).to_string();
                    if self.shape.chance(0.7) {
                        let a = self.args(depth - 1, 3);
                        s = format!("{}.{}{}", s, f, a);
                    } else {
                        s = format!("{}.{}", s, f);
                    }
                }
                s
            }
            9 => {
                let c = self.expr(depth - 1);
                let a = self.code_block(depth - 1);
                if self.shape.chance(0.6) {
                    let b = self.code_block(depth - 1);
                    format!("if {} {} else {}", c, a, b)
                } else {
                    format!("if {} {}", c, a)
                }
            }
            10 => {
                let e = self.expr(depth - 1);
                format!("({})", e)
            }
            _ => {
                let e = self.atom();
                format!("not {}", e)
            }
        }
    }

    fn import_item(&mut self) -> String {
        // >= 4 unsorted duplicate-free items: reorder sensitivity and hash-order visibility
        let path = match self.shape.below(3) {
            0 => "\"m.typ\"".to_string(),
            1 => "\"@preview/pkg:0.1.0\"".to_string(),
            _ => format!("\"{}.typ\"", self.word()),
        };
        if self.shape.chance(0.1) {
            return format!("#import {}: *", path);
        }
        if self.shape.chance(0.1) {
            return format!("#import {}", path);
        }
        if self.shape.chance(0.3) {
            // names from a small shared pool, duplicates allowed: statements in different documents
            // (and calls) share names; a list that binds a name twice must not be reordered
            const POOL: &[&str] = &["widget", "helper", "alpha", "beta", "util", "core", "zeta", "main", "io", "fmt", "\u{432}", "\u{431}", "\u{430}", "\u{540d}", "\u{524d}"];
            let n = self.shape.range(2, 6);
            let mut items: Vec<String> = Vec::new();
            for _ in 0..n {
                let name = self.shape.pick(POOL).to_string();
                if self.shape.chance(0.15) {
                    let alias = self.shape.pick(POOL).to_string();
                    items.push(format!("{} as {}", name, alias));
                } else {
                    items.push(name);
                }
            }
            return format!("#import {}: {}", path, items.join(", "));
        }
        let n = self.shape.range(2, 9);
        let mut items = Vec::new();
        let mut last_name: Option<String> = None;
        for _ in 0..n {
            // names that sort differently from generation order
            let w = self.word();
            self.counter += 1;
            let mut name = format!("{}{}zq{}", w, self.counter, self.tag);
            // the same path again under another alias: items that compare equal on the path
            // (any order among them that is not a function of the text is a leak)
            let repeat = last_name.is_some() && self.shape.chance(0.3);
            if repeat {
                name = last_name.clone().unwrap();
            }
            if repeat || self.shape.chance(0.25) {
                let alias = self.ident();
                items.push(format!("{} as {}", name, alias));
            } else {
                items.push(name.clone());
            }
            last_name = Some(name);
        }
        if self.shape.chance(0.1) {
            // comment inside the list: a guard against reordering
            let t = self.comment_text();
            items.insert(1, format!("/* {} */ {}", t, self.word()));
        }
        let body = {
            let mut s = String::new();
            let k = items.len();
            for (i, it) in items.into_iter().enumerate() {
                s.push_str(&it);
                if i + 1 < k {
                    s.push(',');
                    let w = self.ws(2);
                    s.push_str(&w);
                }
            }
            s
        };
        if self.shape.chance(0.3) {
            format!("#import {}: ({})", path, body)
        } else if body.contains('\n') {
            // a bare item list cannot contain line breaks
            format!("#import {}: ({})", path, body)
        } else {
            format!("#import {}: {}", path, body)
        }
    }

    fn math(&mut self) -> String {
        let n = self.shape.range(1, 6);
        let mut parts = Vec::new();
        for _ in 0..n {
            let p = match self.shape.below(8) {
                0 => "x^2".to_string(),
                1 => "y_1".to_string(),
                2 => "sum_(i=0)^n i".to_string(),
                3 => "frac(a, b)".to_string(),
                4 => "alpha + beta".to_string(),
                5 => format!("{}", self.shape.below(100)),
                6 => "mat(1, 2; 3, 4)".to_string(),
                _ => "sqrt(x)".to_string(),
            };
            parts.push(p);
        }
        let body = parts.join(*self.shape.pick(&[" + ", " = ", " dot ", "  -  ", " & "]));
        match self.shape.below(3) {
            0 => format!("${}$", body),
            1 => format!("$ {} $", body),
            _ => format!("$\n  {}\n$", body),
        }
    }

    fn list_block(&mut self) -> String {
        let n = self.shape.range(1, 4);
        let marker = *self.shape.pick(&["-", "+"]);
        let mut s = String::new();
        for _ in 0..n {
            let w = self.words(1, 6);
            s.push_str(&format!("{} {}\n", marker, w));
            if self.shape.chance(0.3) {
                let w = self.words(1, 4);
                s.push_str(&format!("  {} {}\n", marker, w));
            }
        }
        if self.shape.chance(0.3) {
            let t = self.word();
            let w = self.words(1, 5);
            s.push_str(&format!("/ {}: {}\n", t, w));
        }
        s.trim_end().to_string()
    }

    /// a call that aborts on its own on the current tree (capacity overflow in the table layout):
    /// an aborted call must not leave anything behind either
    pub fn natural_abort(&mut self) -> String {
        format!("#table(columns: 9223372036854775807, [{}])", self.word())
    }

    fn table(&mut self) -> String {
        // the column count is a value, not shape: twins get tables that differ only in `columns:`
        let cols = self.deco.range(1, 5);
        let cells = self.shape.range(0, 12);
        let mut items = vec![format!("columns: {}", cols)];
        for _ in 0..cells {
            let w = self.words(1, 2);
            items.push(format!("[{}]", w));
        }
        let f = *self.shape.pick(&["table", "grid"]);
        format!("#{}{}", f, self.list_body(items, 0))
    }

    /// a deeply nested expression (depth levels), mixing the constructs that recurse through
    /// the printer's conversion entry points
    pub fn deep(&mut self, levels: usize) -> String {
        let mut s = self.atom();
        for _ in 0..levels {
            s = match self.shape.below(7) {
                0 => format!("({},)", s),
                1 => {
                    let f = self.shape.pick(FUNCS).to_string();
                    format!("{}({})", f, s)
                }
                2 => {
                    let k = self.ident();
                    format!("({}: {})", k, s)
                }
                3 => format!("[#{}]", s.trim_start_matches('#')),
                4 => format!("{{ {} }}", s),
                5 => {
                    let a = self.atom();
                    format!("({}, {})", a, s)
                }
                _ => {
                    let p = self.ident();
                    format!("({}) => {}", p, s)
                }
            };
        }
        s
    }

    /// one top-level markup item (no trailing newline)
    pub fn item(&mut self) -> String {
        let depth = self.shape.range(1, 3);
        match self.shape.weighted(&[8, 5, 6, 5, 3, 3, 4, 3, 3, 2, 2, 2, 4, 2, 2, 2, 1, 3, 2, 1, 2, 2]) {
            21 => {
                // a block comment over several lines whose continuation lines are indented with
                // tabs (and one with blanks): whatever re-indents or aligns comment lines has to
                // decide what a tab is worth
                let id = self.ident();
                let w1 = self.word();
                let w2 = self.word();
                let tabs = "\t".repeat(self.shape.range(1, 3));
                if self.shape.chance(0.5) {
                    format!("#{{\n  /* {} {}\n{}{} line\n{}\t{} last\n   spaces */\n  let {} = 1\n}}", w1, id, tabs, w2, tabs, w1, id)
                } else {
                    format!("/* {} {}\n{}{} line\n{}{} last */\n#let {} = 1", w1, id, tabs, w2, tabs, w1, id)
                }
            }
            20 => {
                // a row of short strings made of characters whose width is a matter of opinion
                // (East Asian ambiguous: one column here, two in a CJK terminal; wide; combining;
                // zero width), sized so that it fits the common page widths under one way of
                // measuring and not under another
                const CHARS: &[&str] = &["\u{2460}", "\u{2461}", "\u{2026}", "\u{2014}", "\u{b7}", "\u{d7}", "\u{b0}", "\u{b1}", "\u{a7}", "\u{2192}", "\u{203b}", "\u{3b1}", "\u{44f}", "\u{e9}", "\u{4e2d}", "e\u{301}", "\u{200b}", "\u{ff21}"];
                let id = self.ident();
                let n = *self.shape.pick(&[4usize, 5, 6, 8, 10, 11, 12, 13, 14, 18, 19, 20, 21, 22]);
                let narrow_only = self.shape.chance(0.5);
                let mut items = Vec::new();
                for _ in 0..n {
                    let c = if narrow_only { *self.deco.pick(&CHARS[..14]) } else { *self.deco.pick(CHARS) };
                    items.push(format!("\"{}\"", c));
                }
                format!("#let {} = ({})", id, items.join(", "))
            }
            18 => {
                // a partially applied function bound to a short name from a small pool, and a call
                // of it: documents (and twins) share the names, the bound arguments are values
                let name = *self.shape.pick(&["t2", "t3", "tbl", "g2", "fig"]);
                let base = *self.shape.pick(&["table", "grid", "figure", "box"]);
                let cols = self.deco.range(1, 5);
                let n = self.shape.range(0, 8);
                let mut cells = Vec::new();
                for _ in 0..n {
                    let w = self.words(1, 2);
                    cells.push(format!("[{}]", w));
                }
                format!("#let {} = {}.with(columns: {})\n#{}({})", name, base, cols, name, cells.join(", "))
            }
            19 => {
                // one pass of the formatter is not a fixed point on this one
                let pad = "x".repeat(self.shape.range(40, 60));
                format!("#figure(box(`{}{}\nsecond {}`))", pad, " ".repeat(70), self.word())
            }
            17 => {
                // a dot chain whose head is long enough to sit between the chain-width thresholds
                // of different page widths
                let id = self.ident();
                let mut chain = format!("{}{}", self.word(), self.ident());
                for _ in 0..self.shape.range(2, 5) {
                    let f = self.shape.pick(FIELDS).to_string();
                    chain = format!("{}.{}{}", chain, f, self.deco.below(100));
                }
                let a = self.args(1, 4);
                format!("#let {} = {}{}", id, chain, a)
            }
            16 => {
                let id = self.ident();
                // mostly 8-40 levels; sometimes far deeper (hundreds of tree levels)
                let levels = if self.shape.chance(0.2) { self.shape.range(60, 160) } else { self.shape.range(8, 40) };
                let e = self.deep(levels);
                format!("#let {} = {}", id, e)
            }
            0 => {
                let id = self.ident();
                let e = self.expr(depth);
                let a = self.osp();
                let b = self.osp();
                format!("#let {}{}={}{}", id, if a.is_empty() && self.loose == 0.0 { " " } else { a }, b, e)
            }
            1 => {
                let id = self.ident();
                let n = self.shape.range(0, 4);
                let mut ps = Vec::new();
                for _ in 0..n {
                    let p = self.ident();
                    if self.shape.chance(0.3) {
                        let d = self.atom();
                        ps.push(format!("{}: {}", p, d));
                    } else {
                        ps.push(p);
                    }
                }
                let params = self.list_body(ps, 0);
                let e = self.expr(depth);
                format!("#let {}{} = {}", id, params, e)
            }
            2 => {
                let f = self.shape.pick(FUNCS).to_string();
                let a = self.args(depth, 10);
                let c = if self.shape.chance(0.4) { self.content_block(1) } else { String::new() };
                format!("#{}{}{}", f, a, c)
            }
            3 => self.import_item(),
            4 => {
                let f = *self.shape.pick(&["text", "par", "page", "heading"]);
                let a = self.args(1, 4);
                format!("#set {}{}", f, a)
            }
            5 => match self.shape.below(3) {
                0 => {
                    let p = self.ident();
                    let e = self.expr(depth);
                    format!("#show heading: {} => {}", p, e)
                }
                1 => {
                    let a = self.args(1, 3);
                    format!("#show \"{}\": set text{}", self.word(), a)
                }
                _ => {
                    let p = self.ident();
                    let f = self.shape.pick(FUNCS).to_string();
                    format!("#show: {} => {}({})", p, f, p)
                }
            },
            6 => {
                let lvl = "=".repeat(self.shape.range(1, 3));
                let w = self.words(1, 5);
                let id = self.ident();
                format!("{} {} {}", lvl, w, id)
            }
            7 => {
                // prose (long lines must never be rewrapped)
                let n = self.shape.range(1, 3);
                let mut lines = Vec::new();
                for _ in 0..n {
                    lines.push(self.words(3, 24));
                }
                lines.join("\n")
            }
            8 => self.list_block(),
            9 => self.math(),
            10 => {
                let t = self.comment_text();
                if self.shape.chance(0.5) {
                    format!("// {}", t)
                } else {
                    format!("/* {}\n   more */", t)
                }
            }
            11 => {
                // escape hatch followed by a node
                let id = self.ident();
                let e = self.expr(depth);
                format!("// @typstyle off\n#let {}   =   {}", id, e)
            }
            12 => self.table(),
            13 => {
                let lang = *self.shape.pick(&["rust", "py", "", "typ"]);
                format!("```{}\nfn  main( ) {{ {} }}\n```", lang, self.word())
            }
            14 => {
                let x = self.ident();
                let e = self.expr(1);
                let b = self.code_block(depth);
                if self.shape.chance(0.5) {
                    format!("#for {} in {} {}", x, e, b)
                } else {
                    format!("#while {} < {} {}", x, self.shape.below(10), b)
                }
            }
            _ => {
                let e = self.expr(depth);
                format!("#({})", e)
            }
        }
    }

    /// a whole document of `n` items
    pub fn document(&mut self, n: usize) -> String {
        let mut s = String::new();
        for i in 0..n {
            let it = self.item();
            s.push_str(&it);
            if i + 1 < n {
                // separators between items: newline(s)
                let k = if self.shape.chance(self.loose * 0.3) { self.shape.range(2, 5) } else { self.shape.range(1, 2) };
                s.push_str(&"\n".repeat(k));
            }
        }
        if !s.is_empty() || self.shape.chance(0.5) {
            s.push('\n');
        }
        s
    }
}

/// text-level mutations that keep (or deliberately break) well-formedness
pub fn erroneous_variant(text: &str, rng: &mut Rng) -> String {
    let tail = *rng.pick(&["#let =\n", "#(\n", "#f(1, \n", "$ x\n", "#{\n", "#f[abc\n", "#let x = (1, 2\n"]);
    if rng.chance(0.5) {
        format!("{}{}", text, tail)
    } else {
        format!("{}{}", tail, text)
    }
}

pub fn to_crlf(text: &str) -> String {
    text.replace('\n', "\r\n")
}

pub fn drop_final_newline(text: &str) -> String {
    text.trim_end_matches('\n').to_string()
}

pub fn add_trailing_blanks(text: &str, rng: &mut Rng) -> String {
    let mut out = String::new();
    for line in text.split_inclusive('\n') {
        if rng.chance(0.3) && line.ends_with('\n') {
            out.push_str(&line[..line.len() - 1]);
            // also white space outside ASCII (ideographic space, no-break space, em space): the
            // lexer treats it as text, "trailing blank" code may or may not
            out.push_str(*rng.pick(&[" ", "  ", "\t", " ", "\u{3000}", "\u{a0}", "\u{2003}", " \u{3000}"]));
            out.push('\n');
        } else {
            out.push_str(line);
        }
    }
    out
}


/// A well-formed variant of `d` with exactly the same length in bytes and other attributes: a
/// blank after a comma becomes a line break (or the other way round), or an escape-hatch comment
/// is defused (`@typstyle off` -> `@typstyle 0ff`). None if no such place exists.
pub fn same_length_variant(d: &str, rng: &mut crate::rng::Rng) -> Option<String> {
    let mut cands: Vec<(usize, &str, &str)> = Vec::new();
    for (i, _) in d.match_indices(", ") {
        cands.push((i, ", ", ",\n"));
    }
    for (i, _) in d.match_indices(",\n") {
        cands.push((i, ",\n", ", "));
    }
    for (i, _) in d.match_indices("@typstyle off") {
        cands.push((i, "@typstyle off", "@typstyle 0ff"));
    }
    if cands.is_empty() {
        return None;
    }
    for _ in 0..4 {
        let (i, from, to) = *rng.pick(&cands);
        let mut v = String::with_capacity(d.len());
        v.push_str(&d[..i]);
        v.push_str(to);
        v.push_str(&d[i + from.len()..]);
        if v.len() == d.len() && v != d && !typst_syntax::parse(&v).erroneous() {
            return Some(v);
        }
    }
    None
}
